#!/bin/sh
# tools/trymut.sh <patch.diff> <ID> [<ID>...]   run quick checks against a scratch copy of /repo with the patch applied
P=$1; shift
D=$(mktemp -d /tmp/vfmut-XXXXXX)
mkdir -p $D && cp -r /repo/src $D/src
if ! (cd $D && patch -p1 -s --no-backup-if-mismatch < "$P"); then echo "PATCH FAILED"; rm -rf $D; exit 3; fi
rc=0
for id in "$@"; do
  VERIF_REPO=$D /verif/check $id --tier ${TIER:-quick} --no-evidence 2>&1 | grep -E "^(property=|VIOLATION|HARNESS|  violation)" | cut -c1-300
done
rm -rf $D
