#!/bin/sh
# tools/seedscan.sh <out file> ID...  : runs each property's quick check against every patch in /tmp/seed/<ID>-out (or seeded/<ID>*)
OUT=$1; shift
: > $OUT
for id in "$@"; do
  for p in /tmp/seed/$id-out/patch.diff /tmp/seed/$id-out/patch2.diff; do
    [ -f $p ] || continue
    echo "=== $id $(basename $p)" >> $OUT
    /verif/tools/trymut.sh $p $id 2>&1 | cut -c1-220 | head -8 >> $OUT
  done
done
echo DONE >> $OUT
