#!/usr/bin/env python3
"""Regenerates the tables of DESIGN.md section 6.3 from sensitivity/planned.json and seeded/*/meta.json."""
import glob
import json
import os

HERE = os.path.dirname(os.path.dirname(os.path.abspath(__file__)))
MARK = "<!-- GENERATED: sensitivity tables (tools/mk_sensitivity_tables.py) -->"

lines = [MARK, "", "### 6.3 Results (generated)", ""]
pl = os.path.join(HERE, "sensitivity", "planned.json")
if os.path.exists(pl):
    rows = json.load(open(pl))
    killed = sum(1 for r in rows if r["status"] == "killed")
    lines += [f"**Deliberate breaks:** {killed} of {len(rows)} killed by the quick tier of the property's own check.", "",
              "| Property | Break | Result | Signatures (first) |", "|---|---|---|---|"]
    for r in rows:
        lines.append(f"| {r['property']} | {r['what']} ({r['file']}) | {r['status']} | {', '.join(s.split('|', 1)[1] if '|' in s else s for s in r.get('signatures', [])[:2])} |")
    lines.append("")
metas = sorted(glob.glob(os.path.join(HERE, "seeded", "*", "meta.json")))
if metas:
    lines += ["**Seeded changes (sub-agents, confirmed in scratch worktrees):** which quick checks raise an alarm.", "",
              "| Seed | Breaks | What it needs (short) | Caught by | Not caught by (tried) |", "|---|---|---|---|---|"]
    for m in metas:
        d = json.load(open(m))
        name = os.path.basename(os.path.dirname(m))
        notes = os.path.join(os.path.dirname(m), "notes.md")
        short = d.get("summary", "")
        if not short and os.path.exists(notes):
            txt = [l.strip(" *-#") for l in open(notes).read().splitlines() if l.strip()]
            short = (txt[0] if txt else "")[:140]
        det = d.get("detected_by", {})
        caught = [k for k, v in det.items() if v["exit"] == 1]
        missed = [k for k, v in det.items() if v["exit"] == 0]
        if d.get("applies_to_final_tree") is False:
            # displaced by a later fix: commit: the results below are those recorded when the seed was filed
            caught = [c + " (when filed)" for c in caught]
            short += f" [patch no longer applies after {d.get('displaced_by_fix_commit')}; applies to {d.get('last_finam_commit_it_applies_to')}]"
        lines.append(f"| {name} | {d['property']} | {short} | {', '.join(caught) or '—'} | {', '.join(missed) or '—'} |")
    lines.append("")
p = os.path.join(HERE, "DESIGN.md")
s = open(p).read()
if MARK in s:
    s = s[: s.index(MARK)]
s = s.rstrip("\n") + "\n\n" + "\n".join(lines) + "\n"
open(p, "w").write(s)
print("tables written:", len(lines), "lines")
