#!/bin/sh
# tools/sedmut.sh <relative file under src/finam> <sed expression> <ID> [<ID>...]
F=$1; E=$2; shift 2
D=$(mktemp -d /tmp/vfmut-XXXXXX)
cp -r /repo/src $D/src
sed -i "$E" $D/src/finam/$F
if cmp -s $D/src/finam/$F /repo/src/finam/$F; then echo "SED DID NOT CHANGE ANYTHING"; rm -rf $D; exit 3; fi
diff /repo/src/finam/$F $D/src/finam/$F | head -6
for id in "$@"; do
  VERIF_REPO=$D /verif/check $id --tier ${TIER:-quick} --no-evidence 2>&1 | grep -E "^(property=|VIOLATION|HARNESS|  violation)" | cut -c1-260
done
rm -rf $D
