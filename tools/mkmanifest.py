#!/usr/bin/env python3
"""Regenerates MANIFEST.json from the table below (keeps it valid while checks are added)."""
import json, os
HERE = os.path.dirname(os.path.dirname(os.path.abspath(__file__)))
props = [json.loads(l) for l in open(os.path.join(HERE, "properties.jsonl"))]

# id -> (technique, level text, level note, design ref)
CLAIMED = {}
def claim(pid, technique, text, note, ref):
    CLAIMED[pid] = (technique, text, note, ref)

exec(open(os.path.join(HERE, "tools", "claims.py")).read())

checks = []
for p in props:
    pid = p["id"]
    if pid not in CLAIMED:
        continue
    tech, text, note, ref = CLAIMED[pid]
    checks.append({
        "property_id": pid,
        "quick_cmd": f"./check {pid} --tier quick",
        "thorough_cmd": f"./check {pid} --tier thorough",
        "evidence_file": f"/verif/evidence/{pid}.json",
        "replay_cmd_template": f"./check {pid} --replay {{path}}",
        "engine": "vf",
        "level_claimed": {"category": "exploration", "text": text, "design_ref": ref},
        "level_note": note,
        "technique": tech,
    })
na = [{"property_id": p["id"], "reason": "check not built yet in this session (work in progress; see DESIGN.md section 4 for the plan)"}
      for p in props if p["id"] not in CLAIMED]
manifest = {
    "version": 1,
    "setup_cmd": "(/venv/bin/python -c 'import hypothesis' 2>/dev/null || /venv/bin/pip install --no-index --find-links /opt/veriftools/wheels hypothesis) && (/venv/bin/pip install -q --no-index --find-links /opt/veriftools/wheels --target /verif/.deps atheris >/dev/null 2>&1 || echo 'atheris not installed: the coverage-guided part of the thorough tier will be skipped')",
    "hooks": {
        "guard": "FINAM_UFZ_FINAM_VERIF",
        "enable": "no source hooks exist: checks import $VERIF_REPO/src (default /repo/src) directly; ./check exports FINAM_UFZ_FINAM_VERIF=1 but finam never reads it",
        "baseline_off_cmd": "cd /repo && /venv/bin/python -m pytest -ra -q -p no:cacheprovider --timeout=900 --continue-on-collection-errors",
        "source_commits": [],
        "add_only": True,
    },
    "engines": [{
        "name": "vf",
        "path": "vf/runner.py",
        "serves_properties": sorted(CLAIMED),
        "kind_free_text": "property-based testing and fuzzing: Hypothesis-generated cases / operation sequences and completely enumerated finite sub-spaces, each decided against an explicit reference model, differential or round trip written independently of finam; shrunk failures become JSON replay files",
    }, {
        "name": "vf-fuzz",
        "path": "vf/fuzz.py",
        "serves_properties": ["C01", "C02", "C04", "C06", "C19"],
        "kind_free_text": "coverage-guided fuzzing (atheris/libFuzzer, finam instrumented) in the thorough tier: the fuzzer's bytes are decoded into compositions / shapes / topologies by the same Hypothesis strategies (fuzz_one_input) and judged by the same oracle inside the target",
    }],
    "checks": checks,
    "notes": "All checks: ./check <ID> --tier quick|thorough; VERIF_SEED selects the Hypothesis seeds; exit 2 = harness error/inconclusive. Genuine defects found and repaired are listed in known_findings.json (status fixed) with their replay files under replays/.",
    "not_applicable": na,
}
json.dump(manifest, open(os.path.join(HERE, "MANIFEST.json"), "w"), indent=1)
print("claimed:", sorted(CLAIMED), "not yet:", [x["property_id"] for x in na])
