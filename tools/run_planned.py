#!/usr/bin/env python3
"""Sensitivity protocol: applies every deliberate break of tools/planned_breaks.py to a scratch copy of
/repo/src and runs the property's quick check against it. Writes sensitivity/planned.json.
usage: tools/run_planned.py [ID ...]"""
import json
import os
import shutil
import subprocess
import sys
import tempfile
from concurrent.futures import ThreadPoolExecutor

HERE = os.path.dirname(os.path.dirname(os.path.abspath(__file__)))
sys.path.insert(0, os.path.join(HERE, "tools"))
from planned_breaks import B  # noqa: E402

want = set(sys.argv[1:])
rows = [r for r in B if not want or r[0] in want]


def run(row):
    pid, f, old, new, what = row
    d = tempfile.mkdtemp(prefix="vfplan-")
    res = {"property": pid, "file": f, "what": what}
    try:
        shutil.copytree("/repo/src", os.path.join(d, "src"))
        tgt = os.path.join(d, "src/finam", f)
        s = open(tgt).read()
        if s.count(old) != 1:
            res["status"] = f"invalid (old text occurs {s.count(old)} times)"
            return res
        open(tgt, "w").write(s.replace(old, new))
        p = subprocess.run(
            ["/venv/bin/python", "-W", "ignore", "-c", "import finam, finam.adapters, finam.components"],
            env=dict(os.environ, PYTHONPATH=os.path.join(d, "src")), capture_output=True, text=True,
        )
        if p.returncode != 0:
            res["status"] = "invalid (does not import): " + p.stderr[-200:]
            return res
        p = subprocess.run(
            [os.path.join(HERE, "check"), pid, "--tier", "quick", "--no-evidence"],
            env=dict(os.environ, VERIF_REPO=d, VERIF_PROCS="4"), capture_output=True, text=True,
        )
        sigs = sorted({l.strip().split(": ")[0].replace("violation ", "") for l in p.stdout.splitlines() if l.startswith("  violation")})
        res["exit"] = p.returncode
        res["status"] = "killed" if p.returncode == 1 else ("survived" if p.returncode == 0 else "harness-error")
        res["signatures"] = sigs[:5]
        if p.returncode == 2:
            res["detail"] = p.stdout[-600:]
    finally:
        shutil.rmtree(d, ignore_errors=True)
    return res


with ThreadPoolExecutor(3) as ex:
    out = list(ex.map(run, rows))
os.makedirs(os.path.join(HERE, "sensitivity"), exist_ok=True)
path = os.path.join(HERE, "sensitivity", "planned.json")
old = json.load(open(path)) if os.path.exists(path) and want else []
old = [r for r in old if r["property"] not in want]
json.dump(sorted(old + out, key=lambda r: (r["property"], r["what"])), open(path, "w"), indent=1)
for r in out:
    print(r["property"], r["status"], "|", r["what"], "|", ",".join(r.get("signatures", []))[:100], flush=True)
