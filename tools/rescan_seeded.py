#!/usr/bin/env python3
"""Re-runs, for every filed seeded change (seeded/<dir>/patch.diff), the quick check of its own property against a
scratch copy of /repo/src with the patch applied, and refreshes meta.json["detected_by"][<property>].
usage: tools/rescan_seeded.py [dir ...]      (prints one line per seed; exit 1 if a seed is not detected by any check)"""
import json
import os
import shutil
import subprocess
import sys
import tempfile
from concurrent.futures import ThreadPoolExecutor

HERE = os.path.dirname(os.path.dirname(os.path.abspath(__file__)))


def scan(name):
    d = os.path.join(HERE, "seeded", name)
    meta = json.load(open(os.path.join(d, "meta.json")))
    pid = meta["property"]
    tmp = tempfile.mkdtemp(prefix="vfrescan-")
    try:
        shutil.copytree("/repo/src", os.path.join(tmp, "src"))
        p = subprocess.run(f"patch -p1 -s --no-backup-if-mismatch < {d}/patch.diff", shell=True, cwd=tmp, capture_output=True, text=True)
        if p.returncode != 0:
            return name, pid, "PATCH-FAILED", []
        p = subprocess.run([os.path.join(HERE, "check"), pid, "--tier", "quick", "--no-evidence"], env=dict(os.environ, VERIF_REPO=tmp), capture_output=True, text=True)
        sigs = sorted({l.split(":")[0].strip().replace("violation ", "") for l in p.stdout.splitlines() if l.startswith("  violation")})
        meta.setdefault("detected_by", {})[pid] = {"exit": p.returncode, "signatures": sigs[:6]}
        json.dump(meta, open(os.path.join(d, "meta.json"), "w"), indent=1)
        others = [c for c, v in meta["detected_by"].items() if c != pid and v["exit"] == 1]
        return name, pid, p.returncode, others
    finally:
        shutil.rmtree(tmp, ignore_errors=True)


def main():
    names = sys.argv[1:] or sorted(n for n in os.listdir(os.path.join(HERE, "seeded")) if os.path.exists(os.path.join(HERE, "seeded", n, "meta.json")))
    bad = 0
    with ThreadPoolExecutor(4) as ex:
        for name, pid, rc, others in ex.map(scan, names):
            state = "detected" if rc == 1 else ("detected-by-others:" + ",".join(others) if others else f"MISSED(rc={rc})")
            if rc != 1 and not others:
                bad += 1
            print(f"{name}: own check {pid} -> {state}", flush=True)
    sys.exit(1 if bad else 0)


if __name__ == "__main__":
    main()
