#!/usr/bin/env python3
"""Confirms sub-agent mutations in a scratch worktree and files them under /verif/seeded/<ID>[-2]/.

usage: tools/confirm_seeds.py ID [ID ...]      (reads /tmp/seed/<ID>-out/{patch,patch2}.diff, demo*.py, notes*.md)

For each patch: fresh scratch worktree of /repo HEAD outside /repo and /verif; demo on the original code
(must exit 0); apply the patch; demo again (must exit 1); pytest tests (failure set must equal the baseline
set); quick checks of the listed properties against the patched copy; worktree removed. Writes
seeded/<dir>/{patch.diff,demo.py,notes.md,meta.json}.
"""
import json
import os
import shutil
import subprocess
import sys
import tempfile

HERE = os.path.dirname(os.path.dirname(os.path.abspath(__file__)))
PY = "/venv/bin/python"
EXTRA_CHECKS = {  # which further checks are expected to see a mutation seeded for <ID>
    "C05": ["C06", "C19", "C09", "C11", "C01", "C20"], "C01": ["C20"], "C02": ["C20", "C04", "C05", "C13", "C01"], "C20": ["C15"], "C04": ["C02", "C09", "C13", "C01"], "C09": ["C10"], "C10": ["C20"], "C17": ["C18", "C08"],
    "C08": ["C17"], "C13": ["C01"], "C03": ["C06", "C04"], "C07": ["C18", "C15", "C06"], "C18": ["C07"], "C14": ["C15"], "C15": ["C14"],
}


def sh(cmd, cwd=None, env=None, timeout=1800):
    p = subprocess.run(cmd, shell=True, cwd=cwd, env=env, capture_output=True, text=True, timeout=timeout)
    return p.returncode, p.stdout + p.stderr


def baseline_failures():
    rc, out = sh(f"{PY} -m pytest tests -q -p no:cacheprovider 2>&1 | grep -E '^(FAILED|ERROR)' | sed 's/ - .*//' | sort", cwd="/repo")
    return out


SRC = os.environ.get("SEED_SRC", "/tmp/seed")
SUFFIX = os.environ.get("SEED_SUFFIX", "")


def confirm(pid, which):
    src = f"{SRC}/{pid}-out"
    patch = os.path.join(src, "patch.diff" if which == 1 else "patch2.diff")
    demo = os.path.join(src, "demo.py" if which == 1 else "demo2.py")
    notes = os.path.join(src, "notes.md" if which == 1 else "notes2.md")
    if not (os.path.exists(patch) and os.path.exists(demo)):
        return None
    name = (pid if which == 1 else f"{pid}-2") + (f"-{SUFFIX}" if SUFFIX else "")
    wt = tempfile.mkdtemp(prefix="vfconfirm-")
    os.rmdir(wt)
    meta = {"property": pid, "variant": which, "ran": []}
    try:
        rc, out = sh(f"git -C /repo worktree add --detach {wt} HEAD -q")
        assert rc == 0, out
        open(os.path.join(wt, "src/finam/_version.py"), "w").write("__version__ = '0.1.dev1'\n")
        env = dict(os.environ, PYTHONPATH=f"{wt}/src", PYTHONWARNINGS="ignore")
        rc0, out0 = sh(f"{PY} {demo}", cwd=wt, env=env)
        meta["demo_on_original_exit"] = rc0
        meta["ran"].append(f"PYTHONPATH=<wt>/src {PY} demo.py (original) -> exit {rc0}")
        rc, out = sh(f"git -C {wt} apply {patch}")
        how = "git apply"
        if rc != 0:
            rc, out = sh(f"patch -p1 -s --no-backup-if-mismatch -F3 < {patch}", cwd=wt)
            how = "patch -p1 -F3 (context drifted because of later fix: commits)"
        meta["applies"] = rc == 0
        meta["applied_with"] = how
        if rc != 0:
            meta["error"] = out[-500:]
            return name, meta, patch, demo, notes
        rc, cur = sh(f"git -C {wt} diff")
        meta["_rebased_patch"] = cur
        rc1, out1 = sh(f"{PY} {demo}", cwd=wt, env=env)
        meta["demo_on_changed_exit"] = rc1
        meta["demo_output_tail"] = out1.strip()[-400:]
        meta["ran"].append(f"PYTHONPATH=<wt>/src {PY} demo.py (changed) -> exit {rc1}")
        rc, fails = sh(f"{PY} -m pytest tests -q -p no:cacheprovider 2>&1 | grep -E '^(FAILED|ERROR)' | sed 's/ - .*//' | sort", cwd=wt, env=env)
        meta["tests_same_as_baseline"] = fails == BASE
        meta["ran"].append("pytest tests -q -> failure set " + ("identical to" if fails == BASE else "DIFFERENT from") + " the unchanged tree")
        det = {}
        for cid in [pid] + EXTRA_CHECKS.get(pid, []):
            e2 = dict(os.environ, VERIF_REPO=wt)
            rc, out = sh(f"{HERE}/check {cid} --tier quick --no-evidence", env=e2)
            sigs = sorted({l.split(":")[0].strip().replace("violation ", "") for l in out.splitlines() if l.startswith("  violation")})
            det[cid] = {"exit": rc, "signatures": sigs[:6]}
            meta["ran"].append(f"VERIF_REPO=<wt> ./check {cid} --tier quick -> exit {rc}")
        meta["detected_by"] = det
    finally:
        sh(f"git -C /repo worktree remove --force {wt}")
        shutil.rmtree(wt, ignore_errors=True)
    return name, meta, patch, demo, notes


def main():
    global BASE
    BASE = baseline_failures()
    for pid in sys.argv[1:]:
        for which in (1, 2):
            r = confirm(pid, which)
            if r is None:
                continue
            name, meta, patch, demo, notes = r
            ok = meta.get("applies") and meta.get("demo_on_original_exit") == 0 and meta.get("demo_on_changed_exit") == 1 and meta.get("tests_same_as_baseline")
            meta["confirmed"] = bool(ok)
            d = os.path.join(HERE, "seeded", name)
            reb = meta.pop("_rebased_patch", None)
            if ok:
                os.makedirs(d, exist_ok=True)
                with open(os.path.join(d, "patch.diff"), "w") as f:
                    f.write(reb if reb else open(patch).read())
                shutil.copy(demo, os.path.join(d, "demo.py"))
                if os.path.exists(notes):
                    shutil.copy(notes, os.path.join(d, "notes.md"))
                    meta["needs"] = "see notes.md (written by the sub-agent that produced the change)"
                json.dump(meta, open(os.path.join(d, "meta.json"), "w"), indent=1)
            caught = [c for c, v in meta.get("detected_by", {}).items() if v["exit"] == 1]
            print(f"{name}: confirmed={ok} applies={meta.get('applies')} orig={meta.get('demo_on_original_exit')} changed={meta.get('demo_on_changed_exit')} tests={meta.get('tests_same_as_baseline')} caught_by={caught}", flush=True)


if __name__ == "__main__":
    main()
