#!/bin/sh
# quick checks at several seeds on the current tree; prints everything that is not quiet
for s in "$@"; do
  for id in C01 C02 C03 C04 C05 C06 C07 C08 C09 C10 C11 C12 C13 C14 C15 C16 C17 C18 C19 C20; do
    out=$(VERIF_SEED=$s $(dirname $0)/../check $id --tier quick --no-evidence 2>&1); rc=$?
    echo "seed=$s $id rc=$rc $(echo "$out" | head -1 | cut -c1-120)"
    [ $rc -ne 0 ] && echo "$out" | grep -E "VIOLATION|HARNESS|  violation" | cut -c1-400
  done
done
echo SWEEP-DONE
