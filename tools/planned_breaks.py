"""Deliberate breaks used for the sensitivity protocol (DESIGN.md section 6).
Each entry: (property, file under src/finam, old text, new text, what it breaks). The old text must occur
exactly once in the file (checked)."""

B = []


def b(pid, f, old, new, what):
    B.append((pid, f, old, new, what))


S, O, A, T, TI = "schedule.py", "sdk/output.py", "sdk/adapter.py", "adapters/time.py", "adapters/time_integration.py"
CH, GB, GT, MK, UN, CO, RG = "tools/connect_helper.py", "data/grid_base.py", "data/grid_tools.py", "data/tools/mask.py", "data/tools/units.py", "data/tools/core.py", "adapters/regrid.py"

# ---- C01
b("C01", S, "            target_time = comp.next_time\n", "            target_time = comp.time\n", "lag test uses the component's current instead of its announced time")
b("C01", S, "                if dep.time < local_time:\n", "                if False and dep.time < local_time:\n", "driver never descends into lagging upstream components")
b("C01", S, "            if isinstance(inp, IAdapter) and inp.needs_push:\n                buffered = True\n", "            pass\n", "delays upstream of push-based adapters honoured again (original defect F7)")
b("C01", S, "        for _, inp in component.inputs.items():\n        local_time = target_time\n", "XX", "placeholder")
# ---- C02
b("C02", S, "            sort_components.sort(key=lambda m: m.time)\n", "            sort_components.sort(key=lambda m: m.time, reverse=True)\n", "most advanced component first")
b("C02", S, "                    local_time = inp.with_delay(local_time)\n", "                    local_time = inp.with_delay(target_time)\n", "chained delays not accumulated (original defect F6)")
b("C02", S, "                updated = self._update_recursive(c, chain, local_time)\n", "                updated = self._update_recursive(c, chain, target_time)\n", "delay downstream of a pull-based component ignored")
# ---- C03
b("C03", S, "                if comp.status != ComponentStatus.FINISHED and comp.time < end_time:\n", "                if comp.status != ComponentStatus.FINISHED and comp.time <= end_time:\n", "runs one step beyond the end time")
b("C03", S, "        for ada in self._adapters:\n            ada.finalize()\n", "        pass\n", "adapters never finalized")
b("C03", "sdk/component.py", "        for _n, out in self.outputs.items():\n            out.finalize()\n", "        for _n, out in self.outputs.items():\n            out.finalize()\n            for _t in out.targets:\n                if hasattr(_t, '_finalize'):\n                    _t.finalize()\n", "adapters additionally finalized from Component.finalize")
b("C03", S, "        self._connect_components(start_time)\n\n        self.logger.info(\"validate components\")\n        for comp in self._components:\n            comp.validate()\n", "        self.logger.info(\"validate components\")\n        for comp in self._components:\n            if comp.status == ComponentStatus.INITIALIZED:\n                pass\n        self._connect_components(start_time)\n        for comp in self._components:\n            comp.validate()\n            comp.validate()\n", "validate called twice")
# ---- C04
b("C04", S, "        if comp in chain:\n", "        if False:\n", "cycle detection removed (unbounded recursion)")
b("C04", S, "                    local_time = inp.with_delay(local_time)\n", "                    local_time = inp.with_delay(target_time)\n", "delays of chained adapters not accumulated (original defect F6)")
b("C04", S, "                if isinstance(inp, NoDependencyAdapter):\n                    break\n", "                if False:\n                    break\n", "dependency-breaking adapter treated as dependent")
b("C06", S, "            if not any_new_connection:\n", "            if not any_new_connection and counter > 50:\n", "connect stall detected only after 50 idle sweeps")
# ---- C05
b("C05", S, "        no_branch = no_branch or isinstance(target, NoBranchAdapter)\n", "        no_branch = no_branch or isinstance(target, NoBranchAdapter) or (len(targets) > 0 and isinstance(targets[-1][0], NoBranchAdapter))\n", "no-branch flag leaks to a sibling chain depending on link order")
# ---- C06
b("C06", CH, "                    self.in_infos[name] = self.inputs[name].exchange_info()\n                    any_done = True\n", "                    self.in_infos[name] = self.inputs[name].exchange_info()\n                    any_done = False\n", "an input-info exchange is not reported as progress")
b("C06", CH, "            and all(v for v in self.data_pushed.values())\n", "            and True\n", "CONNECTED reported although output data is outstanding")
b("C06", CH, "            out.push_data(copy.copy(data), info_time)\n", "            pass\n", "second initial publication (producer's own start) skipped")
b("C06", S, "                    if m.status != ComponentStatus.CONNECTED\n", "                    if True\n", "all components listed in the circular-coupling error")
# ---- C07
b("C07", "sdk/input.py", "            use_none=False, time=info.time, grid=info.grid, **info.meta\n", "            use_none=True, time=info.time, grid=info.grid, **info.meta\n", "unset consumer fields override the delivered metadata")
b("C07", MK, "            return downstream == Mask.FLEX or upstream == Mask.NONE\n", "            return True\n", "NONE consumer accepts FLEX producer")
b("C07", "data/tools/info.py", "        if not u1_none and (u2_none or not compatible_units(u1, u2)):\n", "        if not u1_none and not u2_none and False:\n", "unit conflicts not detected")
b("C07", O, "                self._output_info.grid = info.grid\n", "                self._output_info.grid = None if info.grid is None else info.grid.copy()\n                self._output_info.grid = self._output_info.grid if not hasattr(info.grid, 'axes_reversed') else type(info.grid).__mro__[0].copy(info.grid)\n", "placeholder-copy (equivalent)")
# ---- C08
b("C08", O, "            if time - t_prev < t - time:\n", "            if 2 * (time - t_prev) < t - time:\n", "nearest selection biased")
b("C08", O, "                if np.may_share_memory(d.data, xdata.data):\n", "                if False:\n", "shared-memory publications accepted")
b("C08", CO, "                data = data.reshape(\n                    [1] + list(info.grid.data_shape), order=info.grid.order\n                )\n", "                data = data.reshape([1] + list(info.grid.data_shape), order=\"C\")\n", "flat payloads reshaped in C order")
b("C08", "sdk/input.py", "        if conv is not None:\n            self.logger.profile(\n                \"converted units from %s to %s (%d entries)\", *conv, data.size\n            )\n        tools.check(data, self._input_info)\n", "        tools.check(data, self._input_info)\n        if conv is not None and data.size > 3:\n            data = data * 1.0000001\n", "unit conversion slightly off for larger arrays")
# ---- C09
b("C09", O, "        t_min = min(self._connected_inputs.values())\n", "        t_min = max(self._connected_inputs.values())\n", "history trimmed for the fastest consumer")
b("C09", O, "        while len(self.data) > 1 and self.data[1][0] <= t_min:\n", "        while len(self.data) > 1 and self.data[0][0] <= t_min:\n", "one entry too many dropped")
b("C09", O, "        while len(self.data) > 1 and self.data[1][0] <= t_min:\n", "        while len(self.data) > 4 and self.data[1][0] <= t_min:\n", "history never trimmed below 4 entries")
b("C09", A, "        self._source.pinged(self if self.needs_push else source)\n", "        self._source.pinged(self)\n", "pass-through adapters register themselves instead of the final input")
# ---- C10
b("C10", O, "            return tools.UNITS.Quantity(data, self.info.units)\n", "            return tools.UNITS.Quantity(data, \"\")\n", "units dropped when an output reads data back")
b("C10", O, "                os.remove(d[1])\n            else:\n                self._total_mem -= d[1].nbytes\n\n    def finalize", "                pass\n            else:\n                self._total_mem -= d[1].nbytes\n\n    def finalize", "evicted spill files of outputs never deleted")
b("C10", O, "f\"{id(self)}-{self._mem_counter}.npy\"", "f\"{self._mem_counter}.npy\"", "two slots collide on file names")
b("C10", T, "    def _finalize(self):\n        \"\"\"Removes remaining data files of the adapter's cache.\"\"\"\n        for _t, d in self.data:\n            if isinstance(d, str):\n                os.remove(d)\n", "    def _finalize(self):\n        \"\"\"Removes remaining data files of the adapter's cache.\"\"\"\n        for _t, d in self.data[1:]:\n            if isinstance(d, str):\n                os.remove(d)\n", "adapter finalize forgets the oldest spill file")
b("C10", O, "                magn.dump(fn)\n", "                np.save(fn, magn.filled(0.0))\n", "mask lost when spilling masked data")
# ---- C11
b("C11", T, "        for t, data in self.data:\n            if time > t:\n                continue\n\n            return self._unpack(data)\n", "        for t, data in self.data:\n            if time >= t:\n                continue\n\n            return self._unpack(data)\n", "NextTime skips an exact hit")
b("C11", T, "    return new_value if dt > step else old_value\n", "    return new_value if dt >= step else old_value\n", "step position boundary")
b("C11", T, "    return old_value + dt * (new_value - old_value)\n", "    return new_value + dt * (old_value - new_value)\n", "interpolation operands swapped")
b("C11", T, "        while len(self.data) > 1 and self.data[1][0] <= time:\n", "        while len(self.data) > 1 and self.data[0][0] <= time:\n", "buffer cleared too far")
b("C11", T, "        if time_range[1] is not None and time > time_range[1]:\n", "        if time_range[1] is not None and False:\n", "requests after the newest publication are served (extrapolation)")
b("C11", T, "    return old_value + dt * (new_value - old_value)\n", "    return old_value if np.allclose(getattr(old_value, \"magnitude\", old_value), getattr(new_value, \"magnitude\", new_value)) else old_value + dt * (new_value - old_value)\n", "linear interpolation short-cut when the neighbours are np.allclose (wrong for values ~1e-9)")
b("C08", O, "            if time - t_prev < t - time:\n", "            if time < t_prev + (t - t_prev) / 2:\n", "nearest publication chosen by a midpoint rounded to microseconds (original defect F14)")
b("C17", UN, "        xdata = UNITS.Quantity(magn.astype(float), xdata.units)\n", "        pass\n", "integer payloads converted within their own integer type (original defect F15)")
# ---- C12
b("C12", TI, "            dt1 = max((self._prev_time - t_old) / time_range, 0.0)\n            dt2 = min((time - t_old) / time_range, 1.0)\n\n            if self._step is None:\n                v1 = interpolate(v_old, v_new, dt1)\n                v2 = interpolate(v_old, v_new, dt2)\n                value = (dt2 - dt1) * 0.5 * (v1 + v2)\n            else:\n                dt1_c = min(dt1, self._step)\n                dt2_c = max(self._step, dt2)\n                value = (min(self._step, dt2) - dt1_c) * v_old + (\n                    dt2_c - max(self._step, dt1)\n                ) * v_new\n\n            value *= time_range.total_seconds()", "            dt1 = (self._prev_time - t_old) / time_range\n            dt2 = min((time - t_old) / time_range, 1.0)\n\n            if self._step is None:\n                v1 = interpolate(v_old, v_new, dt1)\n                v2 = interpolate(v_old, v_new, dt2)\n                value = (dt2 - dt1) * 0.5 * (v1 + v2)\n            else:\n                dt1_c = min(dt1, self._step)\n                dt2_c = max(self._step, dt2)\n                value = (min(self._step, dt2) - dt1_c) * v_old + (\n                    dt2_c - max(self._step, dt1)\n                ) * v_new\n\n            value *= time_range.total_seconds()", "AvgOverTime: missing clamp of the interval start")
b("C12", TI, "        self._clear_cached_data(self._prev_time)\n", "        self._clear_cached_data(time)\n", "drops an interval that is still needed")
b("C12", TI, "            if self._per_time:\n                value *= time_range.total_seconds() * tools.UNITS.Unit(\"s\")\n", "            if self._per_time:\n                value *= time_range.seconds * tools.UNITS.Unit(\"s\")\n", "SumOverTime: timedelta.seconds instead of total_seconds (intervals over a day)")
b("C12", TI, "        if self._per_time:\n            return sum_value.to_reduced_units()\n\n        return sum_value\n", "        return sum_value\n", "units not reduced")
# ---- C13
b("C13", T, "        t = self._pulls[0]\n", "        t = self._pulls[-1]\n", "delay-to-pull uses the latest request")
b("C13", T, "        off = time - self.delay\n        if off < self.initial_time:\n            return self.initial_time\n", "        off = time - self.delay\n        if False:\n            return self.initial_time\n", "fixed delay not clamped at the start time")
b("C13", A, "        new_time = self.with_delay(time)\n        data = self._get_data(new_time, target)\n\n        self._pulled(time)\n", "        new_time = self.with_delay(time)\n        self._pulled(time)\n        data = self._get_data(new_time, target)\n", "request recorded before instead of after the pull")
b("C13", T, "        if time > self.push_time:\n            return self.push_time\n", "        if time > self.push_time:\n            return time\n", "delay-to-push does not limit to the newest publication")
# ---- C14
b("C14", GT, "    return reverse_order[order] if axes_reversed else order\n", "    return order\n", "point order ignores axes_reversed")
b("C14", GT, "        c = order_map(dims, of=\"C\", to=\"F\")[c]\n", "        pass\n", "C-order node map dropped in gen_cells")
b("C14", GB, "            (axes[i] if self.axes_increase[i] else axes[i][::-1])\n", "            axes[i]\n", "data_axes forgets decreasing axes")
b("C14", "data/grid_spec.py", "        self._data_shape = None\n        self._data_size = None\n\n\nclass UniformGrid", "        self._data_shape = None\n\n\nclass UniformGrid", "data_size memo not reset by the location setter (half of original defect F1)")
# ---- C15
b("C15", GB, "        return None if self == other else trans\n", "        return trans if self.axes_reversed != other.axes_reversed else None\n", "no transform when only axis directions differ")
b("C15", GB, "            and (not check_location or self.data_location == other.data_location)\n        ):\n            return False\n\n        if check_location and self.data_shape != (\n", "            and True\n        ):\n            return False\n\n        if check_location and self.data_shape != (\n", "structured compatible_with ignores the data location")
b("C15", GB, "        for i, inc in enumerate(self.axes_increase):\n            if not inc:\n                data = np.flip(data, axis=i)\n        if self.axes_reversed and np.ndim(data) > 1:\n            data = np.transpose(data)\n        return data\n\n    def get_transform_to", "        for i, inc in enumerate(self.axes_increase):\n            if not inc:\n                data = np.flip(data, axis=len(self.axes_increase) - 1 - i)\n        if self.axes_reversed and np.ndim(data) > 1:\n            data = np.transpose(data)\n        return data\n\n    def get_transform_to", "from_canonical flips the mirrored axis")
b("C15", GB, "            swap = list(range(lead)) + list(range(lead, lead + self.dim))[::-1]\n", "            swap = list(range(lead + self.dim))[::-1]\n", "link transform transposes the time axis too (original defect F2)")
# ---- C16
b("C16", RG, "                np.logical_not(self.output_mask.ravel(order=self.output_grid.order))\n", "                np.logical_not(self.output_mask.ravel())\n", "target mask raveled in C order")
b("C16", RG, "        tree = KDTree(self._get_in_coords(), **kw)\n        # only store IDs, since they will be constant\n", "        tree = KDTree(self.input_grid.data_points, **kw)\n        # only store IDs, since they will be constant\n", "nearest ids computed against all (also masked) source points")
b("C16", RG, "            dtools.to_compressed(in_data, order=self.input_grid.order)[self.ids],\n            shape=self.output_grid.data_shape,\n            order=self.output_grid.order,\n", "            dtools.to_compressed(in_data, order=self.input_grid.order)[self.ids],\n            shape=self.output_grid.data_shape,\n            order=self.input_grid.order,\n", "nearest result filled in the source grid's order")
b("C16", RG, "            self.output_mask if self.output_mask is not None else self.downstream_mask\n", "            self.downstream_mask if self.downstream_mask is not None else self.output_mask\n", "target mask given to the adapter (out_mask) overridden by the consumer's flexible mask")
b("C16", RG, "                res[self.out_ids] = self.inter.values[self.fill_ids, 0]\n", "                res[self.out_ids] = self.inter.values[self.fill_ids[::-1], 0]\n", "fill ids of the unstructured linear path reversed")
# ---- C17
b("C17", UN, "    _UNIT_PAIRS_CACHE[(unit1, unit2)] = compat, equiv\n", "    _UNIT_PAIRS_CACHE[(unit1, unit2)] = compat, equiv\n    _UNIT_PAIRS_CACHE[(unit2, unit1)] = compat, equiv\n", "cache filled symmetrically")
b("C17", UN, "    return comp_equiv[1]\n", "    return comp_equiv[0]\n", "equivalent == compatible")
b("C17", UN, "        equiv = np.isclose((1.0 * unit1).to(unit2).magnitude, 1.0)\n", "        equiv = np.isclose((1.0 * unit1).to(unit2).magnitude, 1.0, rtol=1e-2)\n", "equivalence tolerance 1e-2")
b("C17", UN, "    comp_equiv = _UNIT_PAIRS_CACHE.get((unit1, unit2))\n    if comp_equiv is None:\n        comp_equiv = _cache_units(unit1, unit2)\n\n    return comp_equiv[0]\n", "    comp_equiv = _UNIT_PAIRS_CACHE.get((unit1, unit2)) or _UNIT_PAIRS_CACHE.get((unit2, unit1))\n    if comp_equiv is None:\n        comp_equiv = _cache_units(unit1, unit2)\n\n    return comp_equiv[0]\n", "compatible_units looks the pair up in either order (harmless for compatibility: expected survivor)")
# ---- C18
b("C18", MK, "            data = data.compress(np.logical_not(np.ravel(mask, order)))\n", "            data = data.compress(np.logical_not(np.ravel(mask)))\n", "mask raveled in default order when compressing")
b("C18", MK, "    this = this_grid.to_canonical(this)\n", "    pass\n", "first mask not canonicalised before comparison")
b("C18", MK, "        return downstream == Mask.FLEX\n", "        return downstream == Mask.NONE\n", "FLEX and NONE swapped for specified producer masks")
b("C18", MK, "    data[np.logical_not(np.ravel(mask, order=order))] = xdata\n", "    data[np.logical_not(np.ravel(mask))] = xdata\n", "from_compressed places values in default order")
# ---- C19
b("C19", S, "        if no_branch and len(curr_targets) > 1:\n", "        if no_branch and len(curr_targets) > 2:\n", "fan-out of two tolerated behind a no-branch adapter")
b("C19", S, "        no_branch = no_branch or isinstance(target, NoBranchAdapter)\n", "        no_branch = isinstance(target, NoBranchAdapter)\n", "no-branch flag not inherited downstream")
b("C19", S, "    for i, item in enumerate(reversed(chain)):\n        if first_index >= 0 and item.needs_push:\n", "    for i, item in enumerate(chain):\n        if first_index >= 0 and item.needs_push:\n", "dead-link scan from the wrong end")
b("C19", S, "    if len(unlinked_inputs) > 0:\n", "    if False:\n", "missing downstream component not detected")
b("C19", S, "    if static and not inp.is_static:\n", "    if static and inp.is_static:\n", "static check inverted")
# ---- C20
b("C20", O, "                if self.is_static\n                else self._interpolate(time)\n", "                if self.is_static and time is None\n                else self._interpolate(time)\n", "static output interpolates when a time is given")
b("C20", O, "        data = self.callback(self, time)\n", "        data = self.callback(self, self._time or time)\n", "pull-based output passes another time to its provider (harmless while _time is None: expected survivor)")
b("C20", S, "                updated = self._update_recursive(c, chain, local_time)\n", "                updated = self._update_recursive(c, chain, target_time)\n", "required time not forwarded through pull-based components")
b("C20", "components/mergers.py", "                    result += value * weight\n", "                    result += value * strip_time(self._in_data[self._input_names[0] + \"_weight\"], self._grid)\n", "merger multiplies by the first weight only")
b("C20", "sdk/input.py", "            if self._cached_data is None:\n", "            if True:\n", "static input fetches on every pull")
b("C20", O, "            if len(self.data) > 0:\n                raise FinamStaticDataError(\n", "            if len(self.data) > 1:\n                raise FinamStaticDataError(\n", "static output accepts a second publication")

B = [x for x in B if "placeholder" not in x[4]]
