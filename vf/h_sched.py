"""H-SCHED: composition harness (spec -> real finam composition), trace, reference model.

Spec (JSON):
  comps : [{"kind":"model","name","start"(min),"steps":[min,...],"ins":[..],"outs":[..]} |
           {"kind":"thru","name"}]
  links : [[src, out, chain, dst, in], ...]  chain = adapter specs from source to target (vf/h_slot.make_adapter)
  order : listing order of component names;  link creation order = order of `links`
  end   : end time in minutes after the base date
  mem_limit : optional slot memory limit

All times are minutes on the lattice of h_slot (T0 = base date).
"""
import logging
import math
from datetime import datetime, timedelta

import numpy as np

from . import h_slot as hs

logging.disable(logging.CRITICAL)


class HarnessBound(Exception):
    """deterministic termination counter exceeded"""


def _mk_classes():
    import finam as fm

    class Model(fm.TimeComponent):
        def __init__(self, c, world):
            super().__init__()
            self._name = c["name"]
            self._time = hs.tm(c["start"])
            self.steps = c["steps"]
            self.k = 0
            self.ins = c["ins"]
            self.outs = c["outs"]
            self.oid = c.get("oid", 0)
            self.units = c.get("units", "")
            self.after_data = bool(c.get("after_data"))
            self.no_pull = set(c.get("no_pull", []))  # inputs without an initial pull during connect
            self.finish_after = int(c.get("finish_after") or 0)  # reports FINISHED from its n-th update on
            self.world = world
            self.n_update = 0
            self.n_connect = 0

        def _next_time(self):
            return self.time + self.steps[self.k % len(self.steps)] * hs.tick()

        def val(self, out, t):
            return float(hs.mins(t)) + 1000.0 * (self.oid * 4 + self.outs.index(out))

        def _initialize(self):
            self.world.trace.append(("initialize", self.name))
            for n in self.ins:
                self.inputs.add(name=n, time=self.time, grid=fm.NoGrid(), units=None)
            for n in self.outs:
                self.outputs.add(name=n, time=self.time, grid=fm.NoGrid(), units=self.units)
            self.create_connector(pull_data=[n for n in self.ins if n not in self.no_pull])

        def _connect(self, start_time):
            self.n_connect += 1
            if self.n_connect > 2 * len(self.ins) + 3 * len(self.outs) + 3 + self.world.n_comps * 4:
                raise HarnessBound(f"{self.name}: connect called {self.n_connect} times")
            pd = {n: self.val(n, self.time) for n, req in self.connector.data_required.items() if req}
            if self.after_data and any(self.connector.in_data[n] is None for n in self.ins if n not in self.no_pull):
                pd = {}  # a processing step: it can publish only once it has seen its own inputs' initial data
            self.try_connect(start_time, push_data=pd)
            self.world.trace.append(("connect", self.name, self.status.name))
            if self.status == fm.ComponentStatus.CONNECTED:
                for n in self.ins:
                    if n in self.no_pull:
                        continue
                    v = self.connector.in_data[n]
                    self.world.trace.append(
                        ("cpull", self.name, n, hs.mins(start_time), float(np.asarray(v.magnitude).ravel()[0]), str(v.units))
                    )

        def _validate(self):
            self.world.trace.append(("validate", self.name))

        def _update(self):
            t = self.next_time
            self.n_update += 1
            if self.n_update > self.world.update_bound:
                raise HarnessBound(f"{self.name}: updated {self.n_update} times (bound {self.world.update_bound})")
            self.world.trace.append(("update", self.name, hs.mins(self.time), hs.mins(t), self.world.snapshot()))
            for n in self.ins:
                self.world.trace.append(("pull-begin", self.name, n, hs.mins(t)))
                try:
                    v = self.inputs[n].pull_data(t)
                    self.world.trace.append(
                        ("pull", self.name, n, hs.mins(t), "ok", float(np.asarray(v.magnitude).ravel()[0]), str(v.units))
                    )
                except (fm.FinamTimeError, fm.FinamNoDataError) as e:
                    self.world.trace.append(("pull", self.name, n, hs.mins(t), type(e).__name__, str(e)[:160]))
                    raise
            self._time = t
            self.k += 1
            for n in self.outs:
                self.outputs[n].push_data(self.val(n, t), t)
            self.world.trace.append(("updated", self.name, hs.mins(t)))
            if self.finish_after and self.n_update >= self.finish_after:
                # the documented way to say "my series is exhausted" (as CsvReader does on its last row)
                self.status = fm.ComponentStatus.FINISHED

        def _finalize(self):
            self.world.trace.append(("finalize", self.name))

    class Thru(fm.Component):
        """pull-based component following the documented pattern"""

        def __init__(self, c, world):
            super().__init__()
            self._name = c["name"]
            self.world = world
            self.ready = False
            self.n_connect = 0

        def _initialize(self):
            self.world.trace.append(("initialize", self.name))
            self.inputs.add(name="In", time=None, grid=fm.NoGrid(), units=None)
            self.outputs.add(fm.CallbackOutput(callback=self._get, name="Out"))
            self.create_connector(pull_data=["In"], out_info_rules={"Out": [fm.tools.FromInput("In")]})

        def _connect(self, start_time):
            self.n_connect += 1
            if self.n_connect > 8 + self.world.n_comps * 4:
                raise HarnessBound(f"{self.name}: connect called {self.n_connect} times")
            self.try_connect(start_time)
            self.world.trace.append(("connect", self.name, self.status.name))
            if self.connector.all_data_pulled:
                self.ready = True

        def _get(self, _caller, time):
            if not self.ready:
                return None
            self.world.trace.append(("thru", self.name, hs.mins(time)))
            v = self.inputs["In"].pull_data(time)
            self.world.trace.append(("thru-pulled", self.name, hs.mins(time)))
            return v.copy()

        def _validate(self):
            self.world.trace.append(("validate", self.name))

        def _update(self):
            self.world.trace.append(("update-pullbased", self.name))

        def _finalize(self):
            self.world.trace.append(("finalize", self.name))

    return Model, Thru


_CLASSES = None


def classes():
    global _CLASSES  # pylint: disable=global-statement
    if _CLASSES is None:
        _CLASSES = _mk_classes()
    return _CLASSES


class World:
    def __init__(self, spec):
        self.trace = []
        self.comps = []
        self.n_comps = len(spec["comps"])
        models = [c for c in spec["comps"] if c["kind"] == "model"]
        min_step = min(min(c["steps"]) for c in models)
        span = max(spec["end"], max(c["start"] for c in models)) - min(c["start"] for c in models)
        slack = sum(max(c["steps"]) for c in models)
        delays = sum(a[1] for l in spec["links"] for a in l[2] if a[0] == "dfix") + sum(
            a[2] for l in spec["links"] for a in l[2] if a[0] == "dpull"
        )
        self.update_bound = math.ceil((span + slack + delays) / min_step) + 5

    def snapshot(self):
        import finam as fm

        return {
            c.name: (hs.mins(c.time), {n: hs.mins(o.time) for n, o in c.outputs.items()})
            for c in self.comps
            if isinstance(c, fm.ITimeComponent)
        }


class Built:
    pass


def build(spec, mem_loc=None):
    import finam as fm

    Model, Thru = classes()
    w = World(spec)
    comps = {}
    for i, c in enumerate(spec["comps"]):
        if c["kind"] == "model":
            c = dict(c, oid=i)
            comps[c["name"]] = Model(c, w)
        elif c["kind"] == "thru":
            comps[c["name"]] = Thru(c, w)
        elif c["kind"] == "wsum":
            comps[c["name"]] = fm.components.WeightedSum(inputs=c["inputs"]).with_name(c["name"])
        else:
            raise ValueError(c["kind"])
    order = [comps[n] for n in spec["order"]]
    w.comps = order
    kw = {}
    if spec.get("mem_limit") is not None:
        kw = {"slot_memory_limit": spec["mem_limit"], "slot_memory_location": mem_loc}
    comp = fm.Composition(order, print_log=False, **kw)
    adapters = []
    # adapter instances: a link may share a prefix of its chain with another link (fan-out at an adapter):
    # optional 6th element {"share": [dst, in, k]} = the first k adapters are the instances of link (dst, in)
    inst = {}
    bykey = {(l[3], l[4]): li for li, l in enumerate(spec["links"])}
    for li, l in enumerate(spec["links"]):
        if len(l) > 5 and l[5] and l[5].get("share"):
            continue
        inst[li] = []
        for ai, a in enumerate(l[2]):
            ada = hs.make_adapter(a)
            _log_finalize(ada, w, (li, ai))
            adapters.append(((li, ai), ada))
            inst[li].append(ada)
    for li, l in enumerate(spec["links"]):
        if li in inst:
            continue
        d_, i_, k = l[5]["share"]
        owner = bykey[(d_, i_)]
        inst[li] = list(inst[owner][:k])
        for ai, a in enumerate(l[2][k:], start=k):
            ada = hs.make_adapter(a)
            _log_finalize(ada, w, (li, ai))
            adapters.append(((li, ai), ada))
            inst[li].append(ada)
    for li, l in enumerate(spec["links"]):
        s, so, _chain, d, di = l[:5]
        x = comps[s].outputs[so]
        for ada in inst[li]:
            if ada.source is None:
                x = x >> ada
            else:
                x = ada
        x >> comps[d].inputs[di]
    for c in spec["comps"]:
        if c["kind"] == "model":
            for n in c["outs"]:
                _log_get(comps[c["name"]].outputs[n], w, (c["name"], n))
    b = Built()
    b.comp, b.comps, b.world, b.adapters = comp, comps, w, adapters
    return b


def _log_finalize(ada, world, key):
    orig = ada.finalize

    def fin():
        world.trace.append(("ada_finalize", key))
        return orig()

    ada.finalize = fin


def _log_get(out, world, key):
    orig = out.get_data

    def get(time, target):
        world.trace.append(("get", key, hs.mins(time), hs.mins(out.time)))
        return orig(time, target)

    out.get_data = get


class tick_of:
    """context manager: lattice tick of a spec (for code that converts live datetimes after run() returned)"""

    def __init__(self, spec):
        self.spec = spec

    def __enter__(self):
        self.old = hs.TICK[0], hs.EPOCH[0]
        hs.TICK[0] = timedelta(microseconds=self.spec["tick_us"]) if self.spec.get("tick_us") else timedelta(minutes=1)
        hs.EPOCH[0] = datetime(*self.spec["t0"]) if self.spec.get("t0") else None

    def __exit__(self, *a):
        hs.TICK[0], hs.EPOCH[0] = self.old


def run(spec, mem_loc=None):
    """-> (outcome, message, trace, built). outcome = 'ok' or exception class name.
    spec["tick_us"] (optional) = length of one lattice tick in microseconds (default one minute)."""
    with tick_of(spec):  # spec["tick_us"], spec["t0"] (optional): length of a tick, date of tick 0
        return _run(spec, mem_loc)


def _run(spec, mem_loc=None):
    b = build(spec, mem_loc)
    try:
        b.comp.run(end_time=hs.tm(spec["end"]))
        return "ok", None, b.world.trace, b
    except HarnessBound as e:
        return "HarnessBound", str(e), b.world.trace, b
    except RecursionError as e:
        return "RecursionError", str(e)[:200], b.world.trace, b
    except Exception as e:  # pylint: disable=broad-except
        from .runner import _classify_exception

        if type(e).__module__.startswith("finam"):
            return type(e).__name__, str(e)[:400], b.world.trace, b
        tag = _classify_exception(e)
        if tag is None:
            raise
        return type(e).__name__, str(e)[:400], b.world.trace, b


# ======================================================================================
# reference model (independent of finam.schedule)
# ======================================================================================
class RefModel:
    """required source time of a link for a consumer request; lagging producers; justified sets."""

    def __init__(self, spec):
        self.spec = spec
        self.kind = {c["name"]: c["kind"] for c in spec["comps"]}
        self.start = {c["name"]: c.get("start") for c in spec["comps"]}
        self.steps = {c["name"]: c["steps"] for c in spec["comps"] if c["kind"] == "model"}
        self.outs = {c["name"]: c["outs"] for c in spec["comps"] if c["kind"] == "model"}
        self.inlinks = {}
        for li, l in enumerate(spec["links"]):
            self.inlinks.setdefault(l[3], []).append(li)
        self.hist = {}
        self.comp_start = min(c["start"] for c in spec["comps"] if c["kind"] == "model")
        self.k = {n: 0 for n in self.steps}

    def init_time(self, li):
        s = self.spec["links"][li][0]
        if self.kind[s] == "model":
            return self.start[s]
        ins = self.inlinks.get(s, [])
        return self.init_time(ins[0]) if ins else self.comp_start

    def required(self, li, t, record=False):
        """time the source of link li must have published up to, for a consumer request at t (None: no requirement)"""
        ch = self.spec["links"][li][2]
        cur, eff, init = t, True, self.init_time(li)
        for ai in range(len(ch) - 1, -1, -1):
            a = ch[ai]
            if a[0] in hs.PUSH_BASED:
                eff = False  # answers from its buffer: needs a notification at >= cur; upstream delays change values only
            elif not eff:
                continue
            elif a[0] == "dfix":
                cur = max(cur - a[1], init)
            elif a[0] == "dpull":
                h = self.hist.setdefault((li, ai), [init])
                asked = cur
                cur = max(h[0] - a[2], init)
                if record:
                    h.append(asked)
                    while len(h) > a[1]:
                        h.pop(0)
            elif a[0] == "dpush":
                return None
        return cur

    def source_request(self, li, t, snap):
        """(root source component, output, time) that a consumer pull at t on link li must produce at the
        time-stepped source output, following the chain (and pull-based components) upstream;
        None if a push-based adapter answers from its buffer (no request reaches the source)."""
        s, so, ch = self.spec["links"][li][0:3]
        cur, init = t, self.init_time(li)
        names = [a[0] for a in ch]
        if any(a == "dpull" and "dpush" in names[i + 1:] for i, a in enumerate(names)):
            return "skip"  # request history of a delay-to-pull adapter upstream of a delay-to-push is not modelled
        for ai in range(len(ch) - 1, -1, -1):
            a = ch[ai]
            if a[0] in hs.PUSH_BASED:
                return None
            if a[0] == "dfix":
                cur = max(cur - a[1], init)
            elif a[0] == "dpull":
                h = self.hist.setdefault((li, ai), [init])
                cur = max(h[0] - a[2], init)
            elif a[0] == "dpush":
                if self.kind[s] != "model" or snap[s][1][so] is None:
                    return "skip"
                cur = min(cur, snap[s][1][so])
        if self.kind[s] == "model":
            return (s, so, cur)
        ins = self.inlinks.get(s, [])
        if len(ins) != 1:
            return "skip"  # mergers pull several sources: not followed here
        return self.source_request(ins[0], cur, snap)

    def value_of(self, src, out, t):
        i = next(k for k, c in enumerate(self.spec["comps"]) if c["name"] == src)
        return float(t) + 1000.0 * (i * 4 + self.outs[src].index(out))

    def expected_values(self, li, t, exp, pubs):
        """candidate values for a successful consumer pull at t on link li (None: not modelled).
        exp = result of source_request (None for push-based links)."""
        ch = self.spec["links"][li][2]
        s, so = self.spec["links"][li][0:2]
        factor = 1.0
        for a in ch:
            if a[0] == "scale":
                factor *= a[1]
        if exp is not None:
            # follow pull-based components: scale factors of their input links too
            lj = li
            while self.kind[self.spec["links"][lj][0]] != "model":
                lj = self.inlinks[self.spec["links"][lj][0]][0]
                for a in self.spec["links"][lj][2]:
                    if a[0] == "scale":
                        factor *= a[1]
            src, out, tt = exp
            # a consumer's first value at connect is the producer's *initial* value val(start), published for
            # the composition start as well: publications at or before the producer's own start carry val(start)
            ps = pubs[(src, out)]
            d = [abs(p - tt) for p in ps]
            near = [p for p, dd in zip(ps, d) if dd == min(d)]
            st = self.start[src]
            return [factor * self.value_of(src, out, max(p, st)) for p in near]
        kinds = [a[0] for a in ch]
        pb = [k for k in kinds if k in hs.PUSH_BASED]
        if len(pb) != 1 or pb[0] not in ("next", "prev", "lin", "step") or any(k in hs.DELAYS for k in kinds) or self.kind[s] != "model":
            return None
        st = self.start[s]
        series = [(p, self.value_of(s, so, max(p, st))) for p in pubs[(s, so)]]
        # scale factors upstream of the interpolation apply to the series, downstream to the result: both linear
        if t < series[0][0] or t > series[-1][0]:
            return None
        for p, v in series:
            if p == t:
                return [factor * v]
        j = next(k for k, (p, _v) in enumerate(series) if p > t)
        (t0, v0), (t1, v1) = series[j - 1], series[j]
        frac = (t - t0) / (t1 - t0)
        if pb[0] == "next":
            return [factor * v1]
        if pb[0] == "prev":
            return [factor * v0]
        if pb[0] == "lin":
            return [factor * (v0 + (v1 - v0) * frac)]
        pstep = next(a[1] for a in ch if a[0] == "step")
        return [factor * (v1 if frac > pstep else v0)]

    def pull(self, comp, t):
        """record a consumer pull at t on all input links of comp (propagating through pull-based comps)"""
        for li in self.inlinks.get(comp, []):
            r = self.required(li, t, record=True)
            s = self.spec["links"][li][0]
            if self.kind[s] != "model" and r is not None:
                self.pull(s, r)

    def lagging(self, comp, target, snap):
        res = []
        for li in self.inlinks.get(comp, []):
            r = self.required(li, target)
            if r is None:
                continue
            s, so = self.spec["links"][li][0:2]
            if self.kind[s] == "model":
                if snap[s][1][so] is None or snap[s][1][so] < r:
                    res.append(s)
            else:
                res += self.lagging(s, r, snap)
        return res

    def next_time(self, c, snap):
        st = self.steps[c]
        return snap[c][0] + st[self.k[c] % len(st)]

    def connect_pulls(self):
        for c in self.spec["comps"]:
            if c["kind"] == "model" and c["ins"]:
                self.pull(c["name"], self.comp_start)

    def justified(self, snap):
        tmin = min(v[0] for v in snap.values())
        S = {n for n, v in snap.items() if v[0] == tmin}
        todo = list(S)
        while todo:
            c = todo.pop()
            for u in self.lagging(c, self.next_time(c, snap), snap):
                if u not in S:
                    S.add(u)
                    todo.append(u)
        return S


def monitor(spec, trace, want=("C01", "C02")):
    """replays the trace against the reference model.
    returns list of (prop, tag, message, event) and stats dict"""
    m = RefModel(spec)
    m.connect_pulls()
    viol = []
    stats = {"updates": 0, "non_min_updates": 0, "pulls": 0, "pull_fail": 0, "requests_checked": 0}
    inlink = {(l[3], l[4]): li for li, l in enumerate(spec["links"])}
    cur_snap, cur_pull, gets, pending = None, None, [], {}
    # complete publication history of every model output: initial publications, then one per update
    pubs = {(c["name"], o): sorted({m.comp_start, c["start"]}) for c in spec["comps"] if c["kind"] == "model" for o in c["outs"]}
    for ev in trace:
        if ev[0] == "pull-begin":
            cur_pull, gets = ev, []
            continue
        if ev[0] == "get" and cur_pull is not None:
            gets.append(ev)
        if ev[0] == "pull" and cur_pull is not None and "C13" in want and ev[4] == "ok" and cur_snap is not None:
            li = inlink.get((ev[1], ev[2]))
            exp = pending.get((ev[1], ev[2]), "skip")
            if exp != "skip":
                got = [(g[1][0], g[1][1], g[2]) for g in gets]
                want_g = [] if exp is None else [exp]
                stats["requests_checked"] += 1
                if got != want_g:
                    viol.append(("C13", "source-request-time", f"{ev[1]}.{ev[2]} pull at {ev[3]}: source outputs asked {got}, the documented shifts give {want_g}; chain {spec['links'][li][2]}", ev[:4]))
                else:
                    # value: the publication nearest to the requested time (either at the midpoint), scaled;
                    # for one interpolation adapter without delays: its definition on the complete series
                    cands = m.expected_values(li, ev[3], exp, pubs)
                    if cands is not None:
                        stats["values_checked"] = stats.get("values_checked", 0) + 1
                        if not any(abs(ev[5] - c) <= 1e-9 * max(1.0, abs(c)) for c in cands):
                            viol.append(("C13", "delivered-value", f"{ev[1]}.{ev[2]} pull at {ev[3]} delivered {ev[5]}, expected one of {cands[:3]} (source request {exp}); chain {spec['links'][li][2]}", ev[:4]))
            cur_pull = None
        if ev[0] == "updated":
            for o in m.outs[ev[1]]:
                pubs[(ev[1], o)].append(ev[2])
        if ev[0] == "update":
            cur_snap = ev[4]
            _e, x, tcur, tnext, snap = ev
            stats["updates"] += 1
            tmin = min(v[0] for v in snap.values())
            if tcur != tmin:
                stats["non_min_updates"] += 1
            if "C02" in want:
                S = m.justified(snap)
                if x not in S:
                    viol.append(("C02", "unjustified-update", f"{x} updated at {tcur}->{tnext} but justified set is {sorted(S)}; times {{{', '.join(f'{n}:{v[0]}' for n, v in snap.items())}}}", ev[:4]))
            if "C01" in want:
                lag = m.lagging(x, tnext, snap)
                if lag:
                    viol.append(("C01", "lagging-upstream", f"{x} updated for {tnext} while {sorted(set(lag))} have not published far enough; output times {{{', '.join(f'{n}:{v[1]}' for n, v in snap.items())}}}", ev[:4]))
            if "C13" in want:
                # what each pull of this update has to request from its source (before the pulls are recorded)
                pending = {(x, l[4]): m.source_request(li, tnext, snap) for li, l in enumerate(spec["links"]) if l[3] == x}
            m.pull(x, tnext)
            m.k[x] += 1
        elif ev[0] == "pull":
            stats["pulls"] += 1
            if ev[4] != "ok":
                stats["pull_fail"] += 1
                if "C01" in want:
                    viol.append(("C01", f"pull-fails:{ev[4]}", f"{ev[1]}.{ev[2]} pull at announced time {ev[3]} failed: {ev[5]}", ev[:5]))
        elif ev[0] == "get":
            if "C01" in want and ev[3] is not None and ev[2] > ev[3]:
                viol.append(("C01", "request-beyond-published", f"output {ev[1]} asked for {ev[2]} but newest publication is {ev[3]}", ev))
    return viol, stats


# ======================================================================================
# life-cycle monitor (C03)
# ======================================================================================
def lifecycle(spec, trace, built, outcome):
    with tick_of(spec):
        return _lifecycle(spec, trace, built, outcome)


def _lifecycle(spec, trace, built, outcome):
    import finam as fm

    viol = []
    names = [c["name"] for c in spec["comps"]]
    seq = {n: [] for n in names}
    for ev in trace:
        if ev[0] in ("initialize", "connect", "validate", "update", "finalize", "update-pullbased") and ev[1] in seq:
            seq[ev[1]].append(ev[0])
    phase_rank = {"initialize": 0, "connect": 1, "validate": 2, "update": 3, "finalize": 4}
    for n, s in seq.items():
        kind = next(c["kind"] for c in spec["comps"] if c["name"] == n)
        if kind == "wsum":
            continue
        if "update-pullbased" in s:
            viol.append(("pullbased-updated", f"pull-based component {n} was updated by the driver"))
        s = [x for x in s if x != "update-pullbased"]
        ranks = [phase_rank[x] for x in s]
        ok = (
            ranks == sorted(ranks)
            and s.count("initialize") == 1
            and s.count("connect") >= 1
            and s.count("validate") == 1
            and s.count("finalize") == 1
        )
        if not ok:
            viol.append(("lifecycle-order", f"{n}: callback sequence {_compress(s)} is not initialize connect+ validate update* finalize"))
        if built.comps[n].status != fm.ComponentStatus.FINALIZED:
            viol.append(("not-finalized", f"{n} ends in state {built.comps[n].status.name}"))
    fin = {}
    for ev in trace:
        if ev[0] == "ada_finalize":
            fin[ev[1]] = fin.get(ev[1], 0) + 1
    for key, _a in built.adapters:
        if fin.get(key, 0) != 1:
            viol.append(("adapter-finalize-count", f"adapter {key} of link {spec['links'][key[0]][:3]} finalized {fin.get(key, 0)} times"))
    # times
    end = spec["end"]
    start = min(c["start"] for c in spec["comps"] if c["kind"] == "model")
    last = {}
    for ev in trace:
        if ev[0] == "update":
            _e, x, tcur, tnext, snap = ev
            if tnext <= tcur or (x in last and tcur != last[x]):
                viol.append(("time-not-increasing", f"{x}: update {tcur}->{tnext} after time {last.get(x)}"))
            last[x] = tnext
            if end > start and all(v[0] >= end for v in snap.values()):
                viol.append(("update-after-end", f"{x} updated ({tcur}->{tnext}) although all time components had reached end {end}: {[(n, v[0]) for n, v in snap.items()]}"))
    for c in spec["comps"]:
        if c["kind"] == "model":
            t = hs.mins(built.comps[c["name"]].time)
            if t < end:
                viol.append(("end-not-reached", f"{c['name']} ends at {t} < end {end}"))
    return viol


def _compress(s):
    out = []
    for x in s:
        if out and out[-1][0] == x:
            out[-1][1] += 1
        else:
            out.append([x, 1])
    return " ".join(f"{a}x{b}" if b > 1 else a for a, b in out)
