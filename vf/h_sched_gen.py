"""Hypothesis strategies producing H-SCHED specs (DAGs with pull-based components, rings with delays)."""
from hypothesis import strategies as st

from . import h_slot as hs

# one lattice tick: a minute (default), a third / quarter of a second (sub-second lags), 25 h (lags over a day)
TICKS = st.sampled_from([None, None, None, 333333, 250000, 90000000000])

# date of tick 0: 2000-01-01 (default), or a run across the Unix epoch, through the end of February 1900 (no leap day),
# through 29 Feb 2400, across the 32-bit time_t limit (2038-01-19 03:14:07)
EPOCHS = st.sampled_from(hs.EPOCHS)

ALL_KINDS = ["scale", "cb", "next", "prev", "lin", "step", "avg", "sum", "dfix", "dpull", "dpush"]


@st.composite
def adapter(draw, kinds):
    k = draw(st.sampled_from(kinds))
    if k == "scale":
        return ["scale", draw(st.sampled_from([1.0, 2.0, 0.5]))]
    if k == "step":
        return ["step", draw(st.sampled_from([0.0, 0.25, 0.5, 1.0]))]
    if k == "avg":
        return ["avg", draw(st.sampled_from([None, None, 0.0, 0.5]))]
    if k == "sum":
        return ["sum", draw(st.sampled_from([0.0, None, 0.5])), draw(st.booleans())]
    if k == "dfix":
        # a quarter of the fixed delays are a user-written ITimeDelayAdapter instead of the shipped DelayFixed
        return ["dfix", draw(st.integers(0, 8))] + (["custom"] if draw(st.integers(0, 3)) == 0 else [])
    if k == "dpull":
        return ["dpull", draw(st.integers(1, 3)), draw(st.integers(0, 3))]
    return [k]


def sanitize(chain, src_offset):
    """exclusions by construction (DESIGN 4/C01): returns (chain, list of exclusion labels)"""
    out, excl = list(chain), []
    # (a) clamping delay downstream of avg/sum -> repeated equal request times -> documented zero-length refusal
    for i, a in enumerate(out):
        if a[0] in ("avg", "sum") and any(b[0] in hs.DELAYS for b in out[i + 1:]):
            out = out[: i + 1] + [b for b in out[i + 1:] if b[0] not in hs.DELAYS]
            excl.append("delay-downstream-of-integration")
            break
    # at most one integration adapter per link and nothing push-based downstream of it (zero-length intervals again)
    for i, a in enumerate(out):
        if a[0] in ("avg", "sum") and any(b[0] in hs.PUSH_BASED for b in out[i + 1:]):
            out = out[: i + 1] + [b for b in out[i + 1:] if b[0] not in hs.PUSH_BASED]
            excl.append("push-based-downstream-of-integration")
            break
    # (b) known finding F10: producer starts later than the composition + delay upstream of a push-based adapter
    if src_offset:
        last_push = max((i for i, a in enumerate(out) if a[0] in hs.PUSH_BASED), default=-1)
        if any(a[0] in hs.DELAYS for a in out[:last_push + 1]):
            out = [a for i, a in enumerate(out) if not (i <= last_push and a[0] in hs.DELAYS)]
            excl.append("F10-offset-delay-upstream-of-push-based")
    return out, excl


@st.composite
def dag_spec(draw, max_models=5, kinds=None, with_thru=True, offsets=True, max_chain=3, end=None, fanout=True):
    kinds = kinds or ALL_KINDS
    n = draw(st.integers(2, max_models))
    names = [f"M{i}" for i in range(n)]
    starts = [draw(st.sampled_from([0, 0, 0, 2, 5])) if offsets else 0 for _ in names]
    comp_start = min(starts)
    steps = [draw(st.lists(st.integers(1, 6), min_size=1, max_size=3)) for _ in names]
    ins = {m: [] for m in names}
    comps, links, excl = [], [], []
    thr = 0
    thrus = []
    thru_up = [k for k in kinds if k in ("scale", "cb", "dfix", "next", "prev", "lin", "step")]
    thru_down = [k for k in kinds if k in ("scale", "cb", "dfix", "dpull")]
    for j in range(1, n):
        for i in range(j):
            if draw(st.integers(0, 9)) >= 6:
                continue
            iname = f"i{len(ins[names[j]])}"
            ins[names[j]].append(iname)
            off = starts[i] != comp_start
            how = draw(st.integers(0, 15)) if with_thru else 15
            if how <= 2:
                # through a new pull-based component
                tn = f"T{thr}"
                thr += 1
                comps.append({"kind": "thru", "name": tn})
                c1, e1 = sanitize(draw(st.lists(adapter(thru_up), min_size=0, max_size=2)) if thru_up else [], off)
                c2, e2 = sanitize(draw(st.lists(adapter(thru_down), min_size=0, max_size=2)) if thru_down else [], off)
                excl += e1 + e2
                links.append([names[i], "o", c1, tn, "In"])
                links.append([tn, "Out", c2, names[j], iname])
                thrus.append((tn, i))
            elif how <= 4:
                # diamond through pull-based components: M_i -> T0 -> (Ta, Tb) -> two inputs of M_j.
                # (fan-out of a pull-based output to consumers that ask for *different* times is known finding
                # F12, owned by C20: both branches end in the same model and carry no delay adapters)
                t0, ta, tb = f"T{thr}", f"T{thr + 1}", f"T{thr + 2}"
                thr += 3
                for tn in (t0, ta, tb):
                    comps.append({"kind": "thru", "name": tn})
                pas = [k for k in kinds if k in ("scale", "cb")]
                c0, e0 = sanitize(draw(st.lists(adapter(thru_up), min_size=0, max_size=1)) if thru_up else [], off)
                excl += e0
                links.append([names[i], "o", c0, t0, "In"])
                iname2 = f"i{len(ins[names[j]])}"
                ins[names[j]].append(iname2)
                # the branch of the input that is pulled first may carry a fixed delay of at most the consumer's smallest
                # step: the shared pull-based output is then asked for T - d first and for T afterwards, and T' - d >= T at
                # the next update - the requests stay monotone, so this is not F12. (Not with a late-starting producer: the
                # delay adapter clamps to the producer's start, which may lie after T.)
                dmax = min(steps[j])
                first_delay = [["dfix", draw(st.integers(1, dmax))]] if "dfix" in kinds and not off and draw(st.integers(0, 2)) == 0 else []
                for tn, inn in ((ta, iname), (tb, iname2)):
                    links.append([t0, "Out", draw(st.lists(adapter(pas), max_size=1)) if pas else [], tn, "In"])
                    tail = (draw(st.lists(adapter(pas), max_size=1)) if pas else []) + (first_delay if tn == ta else [])
                    links.append([tn, "Out", tail, names[j], inn])
                if first_delay:
                    excl.append("info:diamond-with-delayed-first-branch")
                thrus.append((ta, i))
            elif how == 5:
                # two pull-based components in a row: M_i -> Ta -> Tb -> M_j
                ta, tb = f"T{thr}", f"T{thr + 1}"
                thr += 2
                comps.append({"kind": "thru", "name": ta})
                comps.append({"kind": "thru", "name": tb})
                mid = [k for k in thru_down if k != "dpull"]
                c0, e0 = sanitize(draw(st.lists(adapter(thru_up), min_size=0, max_size=1)) if thru_up else [], off)
                c1, e1 = sanitize(draw(st.lists(adapter(mid), min_size=0, max_size=1)) if mid else [], off)
                c2, e2 = sanitize(draw(st.lists(adapter(thru_down), min_size=0, max_size=1)) if thru_down else [], off)
                excl += e0 + e1 + e2
                links.append([names[i], "o", c0, ta, "In"])
                links.append([ta, "Out", c1, tb, "In"])
                links.append([tb, "Out", c2, names[j], iname])
            elif how in (6, 7):
                # fan-out of a pull-based output to two inputs (same or different consumers) asking for different
                # times. Without help this is known finding F12; a further pull-based component on the producer's
                # output that nobody reads pulls once at connect and thereby keeps the producer's history alive.
                t0, kp = f"T{thr}", f"T{thr + 1}"
                thr += 2
                comps.append({"kind": "thru", "name": t0})
                comps.append({"kind": "thru", "name": kp})
                links.append([names[i], "o", [], kp, "In"])
                c0, e0 = sanitize(draw(st.lists(adapter([k for k in thru_up if k in ("scale", "cb", "dfix")]), max_size=1)) if thru_up else [], off)
                excl += e0
                links.append([names[i], "o", c0, t0, "In"])
                j2 = draw(st.sampled_from([j] + [x for x in range(i + 1, n)]))
                iname2 = f"i{len(ins[names[j2]])}"
                ins[names[j2]].append(iname2)
                dl = [k for k in thru_down if k in ("scale", "dfix")]
                for jj, inn in ((j, iname), (j2, iname2)):
                    cc, ee = sanitize(draw(st.lists(adapter(dl), max_size=2)) if dl else [], off)
                    excl += ee
                    links.append([t0, "Out", cc, names[jj], inn])
                excl.append("info:pull-based-fanout-with-history-keeper")
            else:
                c, e = sanitize(draw(st.lists(adapter(kinds), min_size=0, max_size=max_chain)), off)
                excl += e
                links.append([names[i], "o", c, names[j], iname])
    # fan-out at an adapter: a second consumer shares the first k adapter instances of an existing link
    if fanout:
        for l in list(links):
            if l[0].startswith("M") and l[3].startswith("M") and l[2] and draw(st.integers(0, 2)) == 0:
                k = 0
                while k < len(l[2]) and l[2][k][0] in ("scale", "cb", "dfix", "dpush"):
                    k += 1
                if k == 0:
                    continue
                k = draw(st.integers(1, k))
                si = names.index(l[0])
                cands = [j for j in range(si + 1, n)]
                if not cands:
                    continue
                j = draw(st.sampled_from(cands))
                iname = f"i{len(ins[names[j]])}"
                ins[names[j]].append(iname)
                tail_kinds = [x for x in kinds if x in ("scale", "cb", "lin", "prev", "dfix")]
                tail, e = sanitize(l[2][:k] + (draw(st.lists(adapter(tail_kinds), max_size=1)) if tail_kinds else []), starts[si] != comp_start)
                if tail[:k] != l[2][:k]:
                    ins[names[j]].pop()
                    continue
                excl += e
                links.append([l[0], "o", tail, names[j], iname, {"share": [l[3], l[4], k]}])
    for m, s, stp in zip(names, starts, steps):
        comps.append({"kind": "model", "name": m, "start": s, "steps": stp, "ins": ins[m], "outs": ["o"]})
    order = draw(st.permutations([c["name"] for c in comps]))
    links = draw(st.permutations(links))
    return {
        "comps": comps,
        "links": [list(l) for l in links],
        "order": list(order),
        "end": end if end is not None else draw(st.integers(5, 40)),
        "excluded": excl,
        "tick_us": draw(TICKS),
        "t0": draw(EPOCHS),
    }


@st.composite
def chain_spec(draw, min_n=6, max_n=12, kinds=("scale", "cb", "next", "prev", "lin", "dfix")):
    """one long dependency path M0 -> M1 -> ... -> M(n-1) (optionally through pull-based components), listed
    sink-first, source-first, interleaved or at random: the number of connect rounds and the depth of the driver's
    dependency walk grow with n and depend on the listing order"""
    n = draw(st.integers(min_n, max_n))
    names = [f"M{i}" for i in range(n)]
    comps, links, excl = [], [], []
    thr = 0
    for i in range(1, n):
        chain, e = sanitize(draw(st.lists(adapter(list(kinds)), max_size=1)), False)
        excl += e
        if draw(st.integers(0, 6)) == 0:
            tn = f"T{thr}"
            thr += 1
            comps.append({"kind": "thru", "name": tn})
            links.append([names[i - 1], "o", chain, tn, "In"])
            links.append([tn, "Out", [], names[i], "i0"])
        else:
            links.append([names[i - 1], "o", chain, names[i], "i0"])
    dep_all = draw(st.booleans())  # every stage waits for its input's initial data: one uninterrupted dependency path
    for i, m in enumerate(names):
        comps.append({"kind": "model", "name": m, "start": 0, "steps": draw(st.lists(st.integers(1, 4), min_size=1, max_size=2)),
                      "ins": ["i0"] if i else [], "outs": ["o"], "after_data": bool(i) and (dep_all or draw(st.integers(0, 3)) > 0)})
    allnames = [c["name"] for c in comps]
    mode = draw(st.sampled_from(["sink-first", "sink-first", "source-first", "interleaved", "random"]))
    path = names + [c["name"] for c in comps if c["kind"] == "thru"]
    if mode == "sink-first":
        order = path[::-1]
    elif mode == "source-first":
        order = path
    elif mode == "interleaved":
        order = path[::2][::-1] + path[1::2]
    else:
        order = list(draw(st.permutations(allnames)))
    return {"comps": comps, "links": [list(l) for l in draw(st.permutations(links))], "order": order,
            "end": draw(st.integers(4, 16)), "excluded": excl + [f"info:long-chain-{mode}"], "tick_us": draw(TICKS), "t0": draw(EPOCHS)}


RING_MODES = ["none", "suff", "suff_split", "suff_multi", "dpush", "partial"]


@st.composite
def ring_spec(draw, modes=None, chords=True, thru=True, max_n=5):
    modes = modes or RING_MODES
    n = draw(st.integers(2, max_n))
    names = [f"M{i}" for i in range(n)]
    steps = {m: draw(st.lists(st.integers(1, 5), min_size=1, max_size=2)) for m in names}
    need = sum(max(s) for s in steps.values())
    mode = draw(st.sampled_from(modes))
    # occasionally a delay far beyond what is needed: the source output then retains dozens of publications
    slack = st.sampled_from([0, 1, 2, 3, 0, 1, 2, 3, 0, 1, 2, 3, 77, 118, 200, 333])
    total = {
        "none": 0,
        "dpush": 0,
        "suff": need + draw(slack),
        "suff_split": need + draw(slack),
        "suff_multi": need + draw(st.integers(0, 3)),
        "partial": draw(st.integers(1, max(1, need - 1))),
    }[mode]
    parts = [0] * n
    if mode in ("suff", "partial", "suff_split"):
        parts[draw(st.integers(0, n - 1))] = total
    elif mode == "suff_multi":
        for _ in range(total):
            parts[draw(st.integers(0, n - 1))] += 1
    ins = {m: ["i0"] for m in names}
    links = []
    dpush_at = draw(st.integers(0, n - 1))
    for i in range(n):
        ch = []
        if draw(st.integers(0, 9)) < 3:
            ch.append(["lin"])  # push-based upstream of the delays: delays still take effect
        if draw(st.integers(0, 9)) < 4:
            ch.append(["scale", 1.0])
        if parts[i] > 0:
            if mode in ("suff_split", "suff_multi") and parts[i] > 1 and draw(st.booleans()):
                k = draw(st.integers(2, min(3, parts[i])))
                cuts = sorted(draw(st.lists(st.integers(0, parts[i]), min_size=k - 1, max_size=k - 1)))
                pieces = [b - a for a, b in zip([0] + cuts, cuts + [parts[i]])]
                for p in pieces:
                    ch.append(["dfix", p])
                    if draw(st.integers(0, 2)) == 0:
                        ch.append(["cb"])
            else:
                ch.append(["dfix", parts[i]])
        if mode == "dpush" and i == dpush_at:
            ch.append(["dpush"])
        if draw(st.integers(0, 9)) < 2:
            ch.append(["cb"])
        links.append([names[i], "o", ch, names[(i + 1) % n], "i0"])
    # staggered starts (documented: components may start later than the composition): delay adapters clamp to the
    # *source's* start time, which then differs from the consumer's
    stag = draw(st.integers(0, 3)) == 0
    starts = {m: (draw(st.sampled_from([0, 0, 1, 2, 5])) if stag else 0) for m in names}
    comps = [{"kind": "model", "name": m, "start": starts[m], "steps": steps[m], "ins": ins[m], "outs": ["o"]} for m in names]
    # optional pull-based member: M_i -> T -> M_{i+1}; push-based adapters stay upstream of T (its output is pull-only)
    if thru and draw(st.integers(0, 3)) == 0:
        i = draw(st.integers(0, n - 1))
        l = links[i]
        cut = max((k + 1 for k, a in enumerate(l[2]) if a[0] in hs.PUSH_BASED), default=0)
        comps.append({"kind": "thru", "name": "T0"})
        links[i] = [l[0], "o", l[2][:cut], "T0", "In"]
        links.append(["T0", "Out", l[2][cut:], l[3], l[4]])
    # chords: a chord a->b closes a second, shorter cycle (b .. n-1, 0 .. a) that bypasses the links a..b-1,
    # so it has to carry its own delay in the modes that promise a run; tails add no cycle
    extra = 0
    if chords and n >= 3 and draw(st.booleans()):
        a = draw(st.integers(0, n - 3))
        b = draw(st.integers(a + 2, n - 1))
        if not (a == 0 and b == n - 1):
            nm = f"i{len(ins[names[b]])}"
            ins[names[b]].append(nm)
            if mode in ("suff", "suff_split", "suff_multi"):
                cch = [["dfix", need + draw(st.integers(0, 2))]]
            elif mode == "dpush":
                cch = [["dpush"]]
            else:
                cch = []
            if draw(st.booleans()):
                cch.insert(0, ["scale", 1.0])
            links.append([names[a], "o", cch, names[b], nm])
            extra += 1
    # parallel link: a ring member reads its predecessor's output (a model's or the pull-based member's) a second time
    # through a second input with a delay of its own - two inputs of one component fed by the SAME output with
    # different delays; the extra input is declared before or after the ring input. It closes a second cycle, so it
    # carries a sufficient delay of its own in the modes that promise a run.
    if chords and draw(st.integers(0, 3)) == 0:
        j = draw(st.integers(0, n - 1))
        tgt = names[(j + 1) % n]
        l = next(x for x in links if x[3] == tgt and x[4] == "i0")
        nm = f"i{len(ins[tgt])}"
        pch = None
        if l[0] == "T0":
            # behind the pull-based member the two inputs must ask it for non-decreasing times (anything else is the
            # known finding F12): delayed input first, delay <= the consumer's smallest step - which can never be a
            # sufficient delay, so only in the modes that do not promise a run
            # (and only with a common start: the clamp of a delayed request to a later start breaks the monotony again)
            if mode in ("none", "partial") and len(set(starts.values())) == 1:
                pch = [["dfix", draw(st.integers(1, min(steps[tgt])))]]
                ins[tgt].insert(0, nm)
        else:
            if draw(st.booleans()):
                ins[tgt].insert(0, nm)
            else:
                ins[tgt].append(nm)
            if mode in ("suff", "suff_split", "suff_multi"):
                pch = [["dfix", need + draw(st.integers(0, 3))]]
            elif mode == "dpush":
                pch = [["dpush"]]
            else:
                pch = [["dfix", draw(st.integers(1, need + 2))]]
        if pch is not None:
            if draw(st.integers(0, 2)) == 0:
                pch.insert(0, ["scale", 1.0])
            links.append([l[0], l[1], pch, tgt, nm])
            extra += 1
    if chords and draw(st.booleans()):
        t = {"kind": "model", "name": "Tail", "start": 0, "steps": [draw(st.integers(1, 5))], "ins": ["i0"], "outs": ["o"]}
        comps.append(t)
        links.append([names[draw(st.integers(0, n - 1))], "o", draw(st.sampled_from([[], [["lin"]], [["scale", 2.0]]])), "Tail", "i0"])
        extra += 1
    # feeder: a model outside the ring feeds a ring member through a further input, declared before or after the ring
    # input, directly or through a push-based / pass-through adapter (adds no cycle; the member then has inputs whose
    # chains differ in kind: buffered and delayed)
    if chords and draw(st.integers(0, 3)) == 0:
        f = {"kind": "model", "name": "Feed", "start": draw(st.sampled_from(sorted(set(starts.values())))), "steps": [draw(st.integers(1, 5))], "ins": [], "outs": ["o"]}
        comps.append(f)
        tgt = names[draw(st.integers(0, n - 1))]
        nm = f"i{len(ins[tgt])}"
        if draw(st.booleans()):
            ins[tgt].insert(0, nm)
        else:
            ins[tgt].append(nm)
        links.append(["Feed", "o", draw(st.sampled_from([[], [["lin"]], [["next"]], [["prev"]], [["scale", 2.0]], [["lin"], ["cb"]]])), tgt, nm])
        extra += 1
    for c in comps:
        if c["name"] in ins:
            c["ins"] = ins[c["name"]]
    order = draw(st.permutations([c["name"] for c in comps]))
    links = draw(st.permutations(links))
    return {
        "comps": comps,
        "links": [list(l) for l in links],
        "order": list(order),
        # with a huge delay the requests stay clamped at the start until the run has passed the delay
        "end": draw(st.integers(5, 30)) if total < need + 10 else total + draw(st.integers(5, 40)),
        "mode": mode,
        "need": need,
        "total": total,
        "ring": n,
        "extra": extra,
        "excluded": ["info:staggered-starts"] if stag and len(set(starts.values())) > 1 else [],
        "tick_us": draw(TICKS),
        "t0": draw(EPOCHS),
    }
