"""H-UNITS: hand-annotated unit catalogue: string -> (dimension vector, factor to SI, offset in SI).

value_SI = value * factor + offset. Dimension vector = exponents of (length, time, mass, temperature,
amount). The annotations are written by hand from dimensional analysis / the SI brochure; pint is
used only to parse the strings on the finam side.
"""
import math

L, T, M, K, N = (1, 0, 0, 0, 0), (0, 1, 0, 0, 0), (0, 0, 1, 0, 0), (0, 0, 0, 1, 0), (0, 0, 0, 0, 1)


def d(*pairs):
    return tuple(sum(x[i] * e for x, e in pairs) for i in range(5))


NONE = (0, 0, 0, 0, 0)
SPEED = d((L, 1), (T, -1))
AREA = d((L, 2))
VOL = d((L, 3))
FLOW = d((L, 3), (T, -1))
FLUX = d((M, 1), (L, -2), (T, -1))
PRESS = d((M, 1), (L, -1), (T, -2))
ENERGY = d((M, 1), (L, 2), (T, -2))
POWER = d((M, 1), (L, 2), (T, -3))
IRR = d((M, 1), (T, -3))
FORCE = d((M, 1), (L, 1), (T, -2))
DENS = d((M, 1), (L, -3))

CATALOGUE = {
    # length
    "m": (L, 1.0, 0.0), "meter": (L, 1.0, 0.0), "km": (L, 1e3, 0.0), "cm": (L, 1e-2, 0.0),
    "mm": (L, 1e-3, 0.0), "um": (L, 1e-6, 0.0), "gpm": (L, 1.0, 0.0),
    "nm": (L, 1e-9, 0.0), "pm": (L, 1e-12, 0.0),
    # time
    "s": (T, 1.0, 0.0), "min": (T, 60.0, 0.0), "h": (T, 3600.0, 0.0), "hour": (T, 3600.0, 0.0),
    "d": (T, 86400.0, 0.0), "day": (T, 86400.0, 0.0), "year": (T, 365.25 * 86400.0, 0.0), "ms": (T, 1e-3, 0.0),
    "common_year": (T, 365.0 * 86400.0, 0.0), "leap_year": (T, 366.0 * 86400.0, 0.0),  # within 0.3% of year
    # speed / rates
    "m/s": (SPEED, 1.0, 0.0), "m s-1": (SPEED, 1.0, 0.0), "km/h": (SPEED, 1000.0 / 3600.0, 0.0),
    "mm/d": (SPEED, 1e-3 / 86400.0, 0.0), "mm d-1": (SPEED, 1e-3 / 86400.0, 0.0), "mm/day": (SPEED, 1e-3 / 86400.0, 0.0),
    "mm/h": (SPEED, 1e-3 / 3600.0, 0.0), "cm/h": (SPEED, 1e-2 / 3600.0, 0.0), "mm s-1": (SPEED, 1e-3, 0.0),
    "mm/year": (SPEED, 1e-3 / (365.25 * 86400.0), 0.0), "cm/year": (SPEED, 1e-2 / (365.25 * 86400.0), 0.0),
    "nm/s": (SPEED, 1e-9, 0.0), "pm/s": (SPEED, 1e-12, 0.0),
    # area / volume
    "m2": (AREA, 1.0, 0.0), "m**2": (AREA, 1.0, 0.0), "km2": (AREA, 1e6, 0.0), "ha": (AREA, 1e4, 0.0),
    "cm2": (AREA, 1e-4, 0.0), "m3": (VOL, 1.0, 0.0), "l": (VOL, 1e-3, 0.0), "km3": (VOL, 1e9, 0.0),
    # discharge
    "m3/s": (FLOW, 1.0, 0.0), "m3 s-1": (FLOW, 1.0, 0.0), "l/s": (FLOW, 1e-3, 0.0), "m3/d": (FLOW, 1.0 / 86400.0, 0.0),
    # mass
    "kg": (M, 1.0, 0.0), "g": (M, 1e-3, 0.0), "t": (M, 1e3, 0.0), "mg": (M, 1e-6, 0.0), "ug": (M, 1e-9, 0.0), "ng": (M, 1e-12, 0.0),
    # compound
    "kg m-2 s-1": (FLUX, 1.0, 0.0), "kg/m2/s": (FLUX, 1.0, 0.0), "g m-2 s-1": (FLUX, 1e-3, 0.0),
    "kg m-2 d-1": (FLUX, 1.0 / 86400.0, 0.0),
    "ug m-3": (DENS, 1e-9, 0.0), "ng m-3": (DENS, 1e-12, 0.0), "ug/l": (DENS, 1e-6, 0.0),
    "kg/m3": (DENS, 1.0, 0.0), "g/l": (DENS, 1.0, 0.0), "g cm-3": (DENS, 1e3, 0.0),
    "Pa": (PRESS, 1.0, 0.0), "hPa": (PRESS, 100.0, 0.0), "bar": (PRESS, 1e5, 0.0), "mbar": (PRESS, 100.0, 0.0),
    "kPa": (PRESS, 1e3, 0.0), "N m-2": (PRESS, 1.0, 0.0),
    "N": (FORCE, 1.0, 0.0), "J": (ENERGY, 1.0, 0.0), "kJ": (ENERGY, 1e3, 0.0), "W h": (ENERGY, 3600.0, 0.0),
    "W": (POWER, 1.0, 0.0), "kW": (POWER, 1e3, 0.0), "J/s": (POWER, 1.0, 0.0),
    "W/m2": (IRR, 1.0, 0.0), "W m-2": (IRR, 1.0, 0.0), "J m-2 s-1": (IRR, 1.0, 0.0), "MJ m-2 d-1": (IRR, 1e6 / 86400.0, 0.0),
    "m s": (d((L, 1), (T, 1)), 1.0, 0.0), "km h": (d((L, 1), (T, 1)), 3.6e6, 0.0),
    "kg m-2": (d((M, 1), (L, -2)), 1.0, 0.0), "kg/m2": (d((M, 1), (L, -2)), 1.0, 0.0), "g cm-2": (d((M, 1), (L, -2)), 10.0, 0.0),
    # temperature (offset units)
    "K": (K, 1.0, 0.0), "kelvin": (K, 1.0, 0.0), "degC": (K, 1.0, 273.15), "celsius": (K, 1.0, 273.15),
    "degF": (K, 5.0 / 9.0, 459.67 * 5.0 / 9.0), "degR": (K, 5.0 / 9.0, 0.0),  # scale and offset together
    "degrees_Celsius": (K, 1.0, 273.15), "degF": (K, 5.0 / 9.0, 459.67 * 5.0 / 9.0),
    # amount
    "mol": (N, 1.0, 0.0), "mmol": (N, 1e-3, 0.0), "mol/m3": (d((N, 1), (L, -3)), 1.0, 0.0), "mmol/l": (d((N, 1), (L, -3)), 1.0, 0.0),
    # dimensionless
    "": (NONE, 1.0, 0.0), "1": (NONE, 1.0, 0.0), "dimensionless": (NONE, 1.0, 0.0), "%": (NONE, 0.01, 0.0),
    "percent": (NONE, 0.01, 0.0), "m/m": (NONE, 1.0, 0.0), "mm/m": (NONE, 1e-3, 0.0), "g/kg": (NONE, 1e-3, 0.0),
    "rad": (NONE, 1.0, 0.0), "degrees_north": (NONE, math.pi / 180.0, 0.0), "degree": (NONE, math.pi / 180.0, 0.0),
}
NAMES = sorted(CATALOGUE)


def dim(u):
    return CATALOGUE[u][0]


def compatible(a, b):
    return CATALOGUE[a][0] == CATALOGUE[b][0]


def convert(x, a, b):
    """numbers in unit a -> numbers in unit b (dimensional analysis)"""
    _, fa, oa = CATALOGUE[a]
    _, fb, ob = CATALOGUE[b]
    return (x * fa + oa - ob) / fb


def equivalent(a, b):
    return compatible(a, b) and abs(convert(1.0, a, b) - 1.0) <= 1e-9


def by_dimension():
    out = {}
    for n in NAMES:
        out.setdefault(CATALOGUE[n][0], []).append(n)
    return out
