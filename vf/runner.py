"""Runner of the property checks (see DESIGN.md section 2).

    ./check <ID> --tier quick|thorough [--replay FILE] [--part NAME] [--procs N] [--scale F]

exit 0  property held on everything explored (KNOWN-FINDING lines may be printed)
exit 1  at least one violation that known_findings.json does not list
        (one line "VIOLATION property=<ID> replay=<path>" per distinct root-cause signature)
exit 2  harness error / inconclusive (never reported as a violation)
"""
import argparse
import glob
import hashlib
import importlib
import json
import logging
import multiprocessing
import os
import signal
import sys
import time
import traceback
import warnings
from collections import Counter

warnings.filterwarnings("ignore")
logging.disable(logging.CRITICAL)

HERE = os.path.dirname(os.path.dirname(os.path.abspath(__file__)))
MAX_SIGS = 6
CASE_WATCHDOG_S = 120


# --------------------------------------------------------------------------------------
# collector handed to every part.check(case, ctx)
# --------------------------------------------------------------------------------------
class HarnessError(Exception):
    """Something is wrong with the verification machinery itself (exit 2)."""


class Watchdog(Exception):
    pass


class Found(Exception):
    def __init__(self, sig, msg):
        super().__init__(f"{sig}: {msg}")
        self.sig, self.msg = sig, msg


def canon(case):
    return json.dumps(case, sort_keys=True, separators=(",", ":"), default=_json_default)


def _json_default(o):
    try:
        import numpy as np

        if isinstance(o, np.generic):
            return o.item()
        if isinstance(o, np.ndarray):
            return o.tolist()
    except Exception:  # pragma: no cover
        pass
    if isinstance(o, (set, frozenset, tuple)):
        return list(o)
    return repr(o)


def digest(s):
    return hashlib.blake2b(s.encode(), digest_size=8).digest()


class Ctx:
    """Per-part collector. check() reports through it:
    ctx.violation(tag, msg)  -- the property is violated on this case (tag = root-cause label)
    ctx.nontrivial()         -- this case is non-trivial by the rule of the property
    ctx.event(label[, n])    -- class histogram
    ctx.sample(obj)          -- candidate for the evidence samples (first few kept)
    """

    def __init__(self, prop, part):
        self.prop, self.part = prop, part
        self.evaluations = 0
        self.nontriv = set()
        self.classes = Counter()
        self.samples = []
        self.excluded = Counter()
        self._cur_viol = []
        self._cur_nt = False
        self._cur_key = None

    # -- called by the runner --
    def begin(self, key):
        self._cur_viol = []
        self._cur_nt = False
        self._cur_key = key
        self.evaluations += 1

    def end(self, case):
        if self._cur_nt:
            d = digest(self._cur_key)
            if d not in self.nontriv:
                self.nontriv.add(d)
                if len(self.samples) < 4:
                    self.samples.append(_truncate(case))
        return list(self._cur_viol)

    # -- called by check() --
    def violation(self, tag, msg=""):
        sig = f"{self.prop}|{self.part}|{tag}"
        self._cur_viol.append((sig, str(msg)[:600]))

    def nontrivial(self, flag=True):
        if flag:
            self._cur_nt = True

    def event(self, label, n=1):
        self.classes[label] += n

    def summary(self):
        return {
            "evaluations": self.evaluations,
            "nontriv": self.nontriv,
            "classes": dict(self.classes),
            "samples": self.samples,
            "excluded": dict(self.excluded),
        }


def _truncate(case, limit=1500):
    s = canon(case)
    if len(s) <= limit:
        return json.loads(s)
    return {"truncated_json": s[:limit] + "..."}


class Part:
    """One sub-check of a property.

    check(case, ctx)      the oracle; case is JSON-serialisable
    strategy              Hypothesis strategy producing cases (generated part), or
    enumerate(tier)       iterable of cases (finite space, enumerated completely)
    budget                {"quick": n, "thorough": n}  cases *per process*
    """

    def __init__(
        self,
        name,
        check,
        strategy=None,
        enumerate=None,
        budget=None,
        shrink_budget=400,
        exhaustive=False,
        procs=None,
        strategy_thorough=None,
        fuzz=None,
    ):
        self.name = name
        self.check = check
        self.strategy = strategy
        self.strategy_thorough = strategy_thorough  # deeper bounds (sizes, lengths) for the thorough tier
        self.fuzz = fuzz or {}  # {"thorough": executions per process} -> coverage-guided campaign (vf/fuzz.py)
        self.enumerate = enumerate
        self.budget = budget or {"quick": 200, "thorough": 2000}
        self.shrink_budget = shrink_budget
        self.exhaustive = exhaustive
        self.procs = procs or {}


# --------------------------------------------------------------------------------------
# evaluation of one case: run check, classify stray exceptions
# --------------------------------------------------------------------------------------
def _alarm(_s, _f):
    raise Watchdog()


def _classify_exception(exc):
    """An exception escaped from check(): crash inside finam (violation) or harness bug?"""
    tb = traceback.extract_tb(exc.__traceback__)
    frames = [(f.filename.replace("\\", "/"), f.name, f.lineno) for f in tb]
    last_vf = max((i for i, f in enumerate(frames) if "/vf/" in f[0]), default=-1)
    fin = [i for i, f in enumerate(frames) if "/finam/" in f[0]]
    if fin and fin[-1] > last_vf:
        f = frames[fin[-1]]
        return f"crash:{type(exc).__name__}:{os.path.basename(f[0])}:{f[1]}"
    return None


def evaluate(part, case, ctx, key=None):
    """Returns list of (sig, msg) for this case."""
    key = key if key is not None else canon(case)
    ctx.begin(key)
    old = signal.signal(signal.SIGALRM, _alarm)
    signal.alarm(CASE_WATCHDOG_S)
    try:
        part.check(case, ctx)
    except Watchdog:
        raise HarnessError(f"watchdog ({CASE_WATCHDOG_S}s) on case {key[:400]}")
    except HarnessError:
        raise
    except RecursionError as e:
        tag = _classify_exception(e) or "crash:RecursionError"
        ctx.violation(tag, "RecursionError")
    except Exception as e:  # pylint: disable=broad-except
        tag = _classify_exception(e)
        if tag is None:
            raise HarnessError(
                "exception in harness code: "
                + "".join(traceback.format_exception(type(e), e, e.__traceback__))[-3000:]
                + f"\ncase={key[:600]}"
            ) from e
        ctx.violation(tag, f"{type(e).__name__}: {e}")
    finally:
        signal.alarm(0)
        signal.signal(signal.SIGALRM, old)
    return ctx.end(case)


# --------------------------------------------------------------------------------------
# generated parts (Hypothesis)
# --------------------------------------------------------------------------------------
def run_generated(prop, part, n_examples, seed_base, known):
    import hypothesis
    from hypothesis import HealthCheck, Phase, Verbosity, given, settings

    ctx = Ctx(prop, part.name)
    excluded = set(known)
    found = []  # (sig, msg, case)
    for attempt in range(MAX_SIGS + 1):
        state = {"target": None, "best": None, "best_key": None, "msg": "", "shrinks": 0}

        def body(case):
            key = canon(case)
            if state["target"] is not None:
                state["shrinks"] += 1
                if state["shrinks"] > part.shrink_budget and key != state["best_key"]:
                    return
            viols = evaluate(part, case, ctx, key)
            live = []
            for sig, msg in viols:
                if sig in excluded:
                    ctx.excluded[sig] += 1
                else:
                    live.append((sig, msg))
            if not live:
                return
            if state["target"] is None:
                state["target"] = live[0][0]
            for sig, msg in live:
                if sig == state["target"]:
                    state["best"], state["best_key"], state["msg"] = case, key, msg
                    raise Found(sig, msg)

        test = given(part.strategy)(body)
        test = settings(
            max_examples=n_examples,
            database=None,
            deadline=None,
            derandomize=False,
            report_multiple_bugs=False,
            print_blob=False,
            verbosity=Verbosity.quiet,
            phases=(Phase.generate, Phase.shrink),
            suppress_health_check=list(HealthCheck),
        )(test)
        test = hypothesis.seed(seed_base * 16 + attempt)(test)
        try:
            test()
        except Found:
            pass
        except HarnessError:
            raise
        except Exception as e:  # hypothesis-internal (Flaky etc.)
            if state["best"] is None:
                raise HarnessError(
                    "hypothesis error: "
                    + "".join(traceback.format_exception(type(e), e, e.__traceback__))[-3000:]
                ) from e
        if state["target"] is None:
            break
        # re-establish the shrunk failure outside the library
        sub = Ctx(prop, part.name)
        viols = evaluate(part, state["best"], sub)
        sigs = {s for s, _ in viols}
        if state["target"] not in sigs:
            raise HarnessError(
                f"failure not reproducible outside hypothesis (flaky oracle?): {state['target']} "
                f"case={state['best_key'][:600]}"
            )
        found.append((state["target"], state["msg"], state["best"]))
        excluded.add(state["target"])
        if len(found) >= MAX_SIGS:
            break
    return ctx.summary(), found


# --------------------------------------------------------------------------------------
# enumerated parts
# --------------------------------------------------------------------------------------
def run_enumerated(prop, part, cases, known):
    ctx = Ctx(prop, part.name)
    best = {}
    for case in cases:
        key = canon(case)
        for sig, msg in evaluate(part, case, ctx, key):
            if sig in known:
                ctx.excluded[sig] += 1
                continue
            if sig not in best or len(key) < len(best[sig][2]):
                best[sig] = (msg, case, key)
    found = [(sig, m, c) for sig, (m, c, _k) in sorted(best.items())]
    return ctx.summary(), found


# --------------------------------------------------------------------------------------
# sharding
# --------------------------------------------------------------------------------------
_G = {}


def _worker(job):
    kind, pname, shard, nshards, n, seed = job
    mod, known, tier = _G["mod"], _G["known"], _G["tier"]
    part = next(p for p in mod.parts() if p.name == pname)
    try:
        if kind == "gen":
            if tier == "thorough" and part.strategy_thorough is not None:
                part.strategy = part.strategy_thorough
            return ("ok", pname, run_generated(mod.PROP, part, n, seed * 64 + shard, known))
        cases = [c for i, c in enumerate(part.enumerate(tier)) if i % nshards == shard]
        return ("ok", pname, run_enumerated(mod.PROP, part, cases, known))
    except HarnessError as e:
        return ("harness", pname, str(e))
    except BaseException as e:  # pylint: disable=broad-except
        return ("harness", pname, "".join(traceback.format_exception(type(e), e, e.__traceback__))[-3000:])


def merge(a, b):
    if a is None:
        return b
    a["evaluations"] += b["evaluations"]
    a["nontriv"] |= b["nontriv"]
    for k, v in b["classes"].items():
        a["classes"][k] = a["classes"].get(k, 0) + v
    for k, v in b["excluded"].items():
        a["excluded"][k] = a["excluded"].get(k, 0) + v
    for s in b["samples"]:
        if len(a["samples"]) < 4 and s not in a["samples"]:
            a["samples"].append(s)
    return a


# --------------------------------------------------------------------------------------
# coverage-guided tier (atheris), thorough only
# --------------------------------------------------------------------------------------
def run_fuzz(prop, parts, tier, seed, nproc, scale):
    """-> (evidence dict, list of (sig, msg, case, partname), notes)"""
    import shutil
    import subprocess
    import tempfile

    jobs = [(p, max(1, int(p.fuzz[tier] * scale))) for p in parts if p.strategy is not None and p.fuzz.get(tier)]
    if not jobs:
        return None, [], []
    try:
        import atheris  # noqa: F401  pylint: disable=unused-import,import-outside-toplevel
    except Exception:  # pylint: disable=broad-except
        return {"skipped": "atheris not importable (setup_cmd installs it into /verif/.deps)"}, [], ["fuzz tier skipped: atheris missing"]
    root = tempfile.mkdtemp(prefix="vf-fuzz-")
    ev, found, notes = {}, [], []
    try:
        procs = []
        per = max(1, nproc // len(jobs))
        for p, runs in jobs:
            for k in range(per):
                out = os.path.join(root, f"{p.name}-{k}")
                cmd = [sys.executable, "-W", "ignore", "-m", "vf.fuzz", prop, p.name, "--runs", str(runs), "--seed", str(seed * 100 + k + 1), "--out", out]
                procs.append((p, out, subprocess.Popen(cmd, stdout=subprocess.DEVNULL, stderr=subprocess.DEVNULL, cwd=HERE)))
        for p, out, pr in procs:
            pr.wait()
            st = {}
            try:
                with open(os.path.join(out, "stats.json")) as f:
                    st = json.load(f)
            except Exception:  # pylint: disable=broad-except
                notes.append(f"fuzz {p.name}: no stats (exit {pr.returncode})")
            e = ev.setdefault(p.name, {"processes": 0, "executions": 0, "distinct_nontrivial_per_process_sum": 0, "corpus_files": 0})
            e["processes"] += 1
            e["executions"] += st.get("executions", 0)
            e["distinct_nontrivial_per_process_sum"] += st.get("distinct_nontrivial", 0)
            e["corpus_files"] += st.get("corpus_files", 0)
            vf_ = os.path.join(out, "violation.json")
            if os.path.exists(vf_):
                with open(vf_) as f:
                    v = json.load(f)
                found.append((v["signature"], v["message"], v["case"], p.name))
            elif pr.returncode not in (0, 3):
                notes.append(f"fuzz {p.name}: process exit {pr.returncode}")
    finally:
        shutil.rmtree(root, ignore_errors=True)
    return ev, found, notes


# --------------------------------------------------------------------------------------
def load_known(prop):
    path = os.path.join(HERE, "known_findings.json")
    if not os.path.exists(path):
        return []
    with open(path) as f:
        data = json.load(f)
    return [e for e in data.get("findings", []) if e.get("property") == prop]


def write_failure(prop, sig, msg, case, part):
    d = os.path.join(HERE, "failures", prop)
    os.makedirs(d, exist_ok=True)
    h = hashlib.blake2b(sig.encode(), digest_size=6).hexdigest()
    path = os.path.join(d, f"{h}.json")
    with open(path, "w") as f:
        json.dump(
            {"property": prop, "part": part, "signature": sig, "message": msg, "case": json.loads(canon(case))},
            f,
            indent=1,
            sort_keys=True,
        )
    return os.path.relpath(path, HERE)


def main(argv=None):
    ap = argparse.ArgumentParser()
    ap.add_argument("prop")
    ap.add_argument("--tier", default=os.environ.get("VERIF_TIER", "quick"), choices=["quick", "thorough"])
    ap.add_argument("--replay")
    ap.add_argument("--part", action="append")
    ap.add_argument("--procs", type=int)
    ap.add_argument("--scale", type=float, default=float(os.environ.get("VERIF_SCALE", "1")))
    ap.add_argument("--no-evidence", action="store_true")
    args = ap.parse_args(argv)
    try:
        signal.signal(signal.SIGPIPE, signal.SIG_DFL)  # `./check X | head` must not end in a traceback
    except (AttributeError, ValueError):
        pass
    prop = args.prop.upper()
    try:
        seed = int(os.environ.get("VERIF_SEED", "1"))
    except ValueError:
        seed = 1
    t0 = time.time()

    try:
        mod = importlib.import_module(f"vf.props.{prop.lower()}")
        import finam  # noqa: F401  pylint: disable=unused-import,import-outside-toplevel
    except Exception:  # pylint: disable=broad-except
        traceback.print_exc()
        print(f"HARNESS-ERROR property={prop} import failed")
        return 2

    known_entries = load_known(prop)
    known = {e["signature"] for e in known_entries if e.get("status") == "known"}
    parts = [p for p in mod.parts() if not args.part or p.name in args.part]
    byname = {p.name: p for p in mod.parts()}

    # ---- replay of one file ----
    if args.replay:
        with open(args.replay) as f:
            rec = json.load(f)
        part = byname[rec["part"]]
        ctx = Ctx(prop, part.name)
        try:
            viols = evaluate(part, rec["case"], ctx)
        except HarnessError as e:
            print(f"HARNESS-ERROR property={prop} {e}")
            return 2
        bad = [(s, m) for s, m in viols if s not in known]
        for s, m in viols:
            print(f"  replay: {s}: {m}")
        if bad:
            print(f"VIOLATION property={prop} replay={args.replay}")
            return 1
        print(f"replay clean: property={prop} file={args.replay}")
        return 0

    found = {}  # sig -> (msg, case, partname, path)
    harness = []
    totals = {}
    replayed = 0

    # ---- regression tier: committed replays ----
    for path in sorted(glob.glob(os.path.join(HERE, "replays", prop, "*.json"))):
        with open(path) as f:
            rec = json.load(f)
        part = byname.get(rec.get("part"))
        if part is None or (args.part and part.name not in args.part):
            continue
        ctx = Ctx(prop, part.name)
        try:
            viols = evaluate(part, rec["case"], ctx)
        except HarnessError as e:
            harness.append(f"replay {path}: {e}")
            continue
        replayed += 1
        for s, m in viols:
            if s in known:
                continue
            found.setdefault(s, (m, rec["case"], part.name, os.path.relpath(path, HERE)))

    # ---- generation / enumeration ----
    nproc = args.procs or int(os.environ.get("VERIF_PROCS", "0")) or (
        min(16, os.cpu_count() or 1) if args.tier == "thorough" else min(4, os.cpu_count() or 1)
    )
    jobs = []
    for p in parts:
        np_ = min(nproc, p.procs.get(args.tier, nproc))
        if p.strategy is not None and p.budget.get(args.tier, 0) > 0:
            n = max(1, int(p.budget[args.tier] * args.scale))
            per = max(1, -(-n // np_))
            for sh in range(np_):
                jobs.append(("gen", p.name, sh, np_, per, seed))
        if p.enumerate is not None:
            for sh in range(np_):
                jobs.append(("enum", p.name, sh, np_, 0, seed))
    _G.update(mod=mod, known=known, tier=args.tier)
    if nproc > 1 and len(jobs) > 1:
        with multiprocessing.get_context("fork").Pool(min(nproc, len(jobs))) as pool:
            results = pool.map(_worker, jobs, chunksize=1)
    else:
        results = [_worker(j) for j in jobs]
    for status, pname, payload in results:
        if status != "ok":
            harness.append(f"{pname}: {payload}")
            continue
        summ, fnd = payload
        totals[pname] = merge(totals.get(pname), summ)
        for sig, msg, case in fnd:
            if sig not in found or len(canon(case)) < len(canon(found[sig][1])):
                found[sig] = (msg, case, pname, None)

    # ---- coverage-guided campaigns (thorough tier only) ----
    fuzz_ev = None
    if not args.part or True:
        fuzz_ev, ffound, fnotes = run_fuzz(prop, parts, args.tier, seed, nproc, args.scale)
        for sig, msg, case, pname in ffound:
            if sig not in found or len(canon(case)) < len(canon(found[sig][1])):
                found[sig] = (msg, case, pname, None)
        for n in fnotes:
            print(f"  note: {n}")

    # ---- evidence ----
    wall = time.time() - t0
    ev_parts = {}
    nontriv_all = 0
    evals_all = 0
    samples = []
    classes = Counter()
    excluded = Counter()
    for p in parts:
        t = totals.get(p.name)
        if not t:
            continue
        ev_parts[p.name] = {
            "evaluations": t["evaluations"],
            "distinct_nontrivial": len(t["nontriv"]),
            "exhaustive": bool(p.exhaustive and p.enumerate is not None),
            "classes": dict(sorted(t["classes"].items())),
        }
        evals_all += t["evaluations"]
        nontriv_all += len(t["nontriv"])
        for s in t["samples"][:2]:
            samples.append({"part": p.name, "case": s})
        classes.update({f"{p.name}:{k}": v for k, v in t["classes"].items()})
        excluded.update(t["excluded"])
    evidence = {
        "property_id": prop,
        "tier": args.tier,
        "seed": seed,
        "level": "exploration",
        "coverage": {
            "evaluations": evals_all,
            "distinct_nontrivial": nontriv_all,
            "rule": getattr(mod, "RULE", ""),
            "samples": samples[:8],
            "parts": ev_parts,
            "replayed_regressions": replayed,
            "excluded_known": dict(excluded),
            "exhaustive": False,
            "enumerated": sorted(k for k, v in ev_parts.items() if v["exhaustive"]),
            "processes": nproc,
            "coverage_guided": fuzz_ev or {},
        },
        "assumptions": list(getattr(mod, "ASSUMPTIONS", [])),
        "wall_s": round(wall, 2),
        "violations": len(found),
    }
    if not args.no_evidence and not args.part:
        os.makedirs(os.path.join(HERE, "evidence"), exist_ok=True)
        with open(os.path.join(HERE, "evidence", f"{prop}.json"), "w") as f:
            json.dump(evidence, f, indent=1, sort_keys=True)

    # ---- report ----
    print(
        f"property={prop} tier={args.tier} seed={seed} evaluations={evals_all} "
        f"distinct_nontrivial={nontriv_all} replayed={replayed} wall={wall:.1f}s"
    )
    for name, e in ev_parts.items():
        print(f"  part {name}: evaluations={e['evaluations']} nontrivial={e['distinct_nontrivial']}"
              + (" [exhaustive]" if e["exhaustive"] else ""))
        low = [k for k, v in e["classes"].items() if k.startswith("!") and v < 0.05 * max(1, e["evaluations"])]
        for k in low:
            print(f"    WARNING: class {k} below 5% of cases ({e['classes'][k]})")
    for name, e in (fuzz_ev or {}).items():
        if isinstance(e, dict):
            print(f"  fuzz {name}: executions={e.get('executions')} processes={e.get('processes')} corpus={e.get('corpus_files')}")
    for e in known_entries:
        if e.get("status") == "known":
            print(f"KNOWN-FINDING: property={prop} {e.get('what', e['signature'])} "
                  f"[seen {excluded.get(e['signature'], 0)}x this run]")
    if harness:
        for h in harness:
            print(f"HARNESS-ERROR property={prop} {h}")
    rc = 0
    for sig, (msg, case, pname, path) in sorted(found.items()):
        if path is None:
            path = write_failure(prop, sig, msg, case, pname)
        print(f"  violation {sig}: {msg[:300]}")
        print(f"VIOLATION property={prop} replay={path}")
        rc = 1
    if rc == 0 and harness:
        return 2
    return rc


if __name__ == "__main__":
    sys.exit(main())
