"""C14 - grid index -> coordinate mapping is consistent for every layout (DESIGN.md section 4, C14)."""
import numpy as np
from hypothesis import strategies as st

from .. import h_grid as hg
from ..runner import Part

PROP = "C14"
RULE = (
    "layouts: structured grid configurations (class x dim x order x axes_reversed x per-axis direction x "
    "location; flags enumerated completely over fixed size templates, sizes/coordinates/flags also drawn by "
    "Hypothesis); non-trivial = at least 2 non-degenerate axes and at least one non-default layout flag. "
    "history: sequences of property reads, copies and data_location assignments; non-trivial = a shape/size/"
    "points read happens before a later effective location change. axis_types_enum: rectilinear axes given as "
    "float32 / int arrays, lists, tuples at coordinates of millions of metres. large_enum: uniform/rectilinear/ESRI grids "
    "and mixed tri/quad unstructured grids with 2^15..2^17+ cells (sizes on both sides of 2^16 and 2^17), judged "
    "vectorised against the same reference. distinct = distinct canonical JSON."
)
ASSUMPTIONS = [
    "reference LOC array computed from constructor arguments only (vf/h_grid.py), numpy trusted",
    "coordinates are small dyadic numbers so midpoints are exact; comparisons use atol 1e-12",
]
ATOL = 1e-12


def _close(a, b):
    a, b = np.asarray(a, dtype=float), np.asarray(b, dtype=float)
    return a.shape == b.shape and np.allclose(a, b, rtol=0, atol=ATOL)


def check_layout(cfg, ctx):
    from finam.data.grid_tools import NODE_COUNT

    g = hg.build(cfg)
    LOC, shape, order = hg.ref(cfg)
    dim = LOC.shape[-1]
    ctx.event(f"cls={cfg['cls']}")
    ctx.event(f"dim={dim}")
    nd = hg.n_nondegenerate(cfg)
    ctx.event(f"nondegenerate={nd}")
    ctx.nontrivial(nd >= 2 and hg.nondefault_flags(cfg) >= 1)

    # --- shape / size
    if tuple(g.data_shape) != tuple(shape):
        ctx.violation("data_shape", f"data_shape {g.data_shape} != reference {shape}")
        return
    if int(g.data_size) != int(np.prod(shape)):
        ctx.violation("data_size", f"data_size {g.data_size} != {int(np.prod(shape))}")

    # --- data_axes: coordinate of multi-index i
    dax = g.data_axes
    rev = hg.flags(cfg)[1]
    spatial_of = list(range(dim))[::-1] if rev else list(range(dim))
    ok_axes = len(dax) == dim and all(len(dax[j]) == shape[j] for j in range(dim))
    if not ok_axes:
        ctx.violation("data_axes-shape", f"data_axes lengths {[len(a) for a in dax]} vs shape {shape}")
    else:
        for idx in np.ndindex(*shape):
            got = np.empty(dim)
            for j, s in enumerate(spatial_of):
                got[s] = dax[j][idx[j]]
            if not _close(got, LOC[idx]):
                ctx.violation("data_axes", f"index {idx}: data_axes give {got}, reference {LOC[idx]}")
                break

    # --- flattened data points
    dp = np.asarray(g.data_points)
    flat = hg.flat_locs(cfg)
    if not _close(dp, flat):
        ctx.violation("data_points", f"data_points differ from reference (order={order}); got {dp.tolist()[:6]} ref {flat.tolist()[:6]}")
    for idx in list(np.ndindex(*shape))[:64]:
        k = int(np.ravel_multi_index(idx, shape, order=order))
        if k < len(dp) and not _close(dp[k], LOC[idx]):
            ctx.violation("data_points-index", f"index {idx} -> flat {k}: {dp[k]} vs {LOC[idx]}")
            break

    # --- points / cells / centres
    pts = np.asarray(g.points)
    cells = np.asarray(g.cells)
    ctypes = np.asarray(g.cell_types)
    if len(pts) != g.point_count:
        ctx.violation("point_count", f"{len(pts)} points but point_count {g.point_count}")
    refn = hg.ref_nodes(cfg)
    if not _close(np.array(sorted(map(tuple, pts))), np.array(sorted(map(tuple, refn)))):
        ctx.violation("points-set", "set of grid points differs from the product of the axes")
    if len(cells) != g.cell_count or len(ctypes) != len(cells):
        ctx.violation("cell_count", f"{len(cells)} cells / {len(ctypes)} types but cell_count {g.cell_count}")
    else:
        if cells.size and (cells.min() < 0 or cells.max() >= len(pts)):
            ctx.violation("cells-range", f"cell node ids outside [0,{len(pts)}): min {cells.min()} max {cells.max()}")
        else:
            nodes = [tuple(sorted(c[: NODE_COUNT[t]])) for c, t in zip(cells, ctypes)]
            if len(set(nodes)) != len(nodes):
                ctx.violation("cells-distinct", "two cells reference the same node set")
            for c, t in zip(cells, ctypes):
                if len(set(c[: NODE_COUNT[t]])) != NODE_COUNT[t]:
                    ctx.violation("cells-degenerate", f"cell {c} repeats a node")
                    break
            cc = np.asarray(g.cell_centers)
            mean = np.array([pts[c[: NODE_COUNT[t]]].mean(axis=0) for c, t in zip(cells, ctypes)])
            if not _close(cc, mean):
                ctx.violation("cell_centers", f"cell_centers != mean of cell nodes; got {cc.tolist()[:4]} mean {mean.tolist()[:4]}")
            # cell centres must be the CELLS data locations in flat order
            ccfg = dict(cfg)
            if cfg["cls"] != "esri":
                ccfg["loc"] = "CELLS"
            if not _close(cc, hg.flat_locs(ccfg)):
                ctx.violation("cell_centers-order", "cell_centers are not the cell data locations in grid order")

    # --- cast to unstructured preserves everything
    u = g.to_unstructured()
    if not _close(u.points, pts) or not np.array_equal(np.asarray(u.cells), cells):
        ctx.violation("unstructured-geometry", "to_unstructured changed points or cells")
    if not np.array_equal(np.asarray(u.cell_types), ctypes):
        ctx.violation("unstructured-types", "to_unstructured changed cell types")
    if u.data_location != g.data_location or int(u.data_size) != int(g.data_size):
        ctx.violation("unstructured-location", f"location/size changed: {u.data_location} {u.data_size} vs {g.data_location} {g.data_size}")
    if tuple(u.data_shape) != (int(g.data_size),):
        ctx.violation("unstructured-shape", f"data_shape {u.data_shape}")
    if u.order != g.order:
        ctx.violation("unstructured-order", f"order {u.order} vs {g.order}")
    if not _close(u.data_points, flat):
        ctx.violation("unstructured-data_points", "data points of the unstructured cast differ from reference")
    if not _close(u.cell_centers, np.asarray(g.cell_centers)):
        ctx.violation("unstructured-centers", "cell centres of the unstructured cast differ")


READS = ["data_shape", "data_size", "data_points", "data_axes", "points", "cells", "cell_centers", "data_location"]
LOCS = ["CELLS", "POINTS", 0, 1, "cells", "BOGUS", 7]


def _valid_loc(cfg, v):
    if isinstance(v, int):
        name = {0: "CELLS", 1: "POINTS"}.get(v)
    else:
        name = v if v in ("CELLS", "POINTS") else None
    if name is None:
        return None
    if cfg["cls"] == "esri" and name != "CELLS":
        return None
    return name


def check_history(case, ctx):
    """ops address one of several live grid objects (the original and its copies); every object is checked
    after every step, so state shared between copies is observed"""
    cfg, ops = case["grid"], case["ops"]
    objs = [hg.build(cfg)]
    cur = [hg.flags(cfg)[2]]
    read_before = [False]
    changed_after_read = False
    copies = False
    for op in ops:
        k = (op[2] if len(op) > 2 else 0) % len(objs)
        g = objs[k]
        if op[0] == "read":
            getattr(g, op[1])
            if op[1] in ("data_shape", "data_size", "data_points"):
                read_before[k] = True
        elif op[0] == "copy":
            if len(objs) < 4:
                objs.append(g.copy(deep=bool(op[1])))
                cur.append(cur[k])
                read_before.append(read_before[k])
                copies = True
        elif op[0] == "setloc":
            name = _valid_loc(cfg, op[1])
            if name is None:
                try:
                    g.data_location = op[1]
                except ValueError:
                    pass
                else:
                    ctx.violation("invalid-location-accepted", f"data_location={op[1]!r} accepted on {cfg['cls']}")
                    return
            else:
                g.data_location = op[1]
                if name != cur[k] and any(read_before):
                    changed_after_read = True
                cur[k] = name
        # invariant after every step, for every live object
        for j, o in enumerate(objs):
            rcfg = dict(cfg)
            if cfg["cls"] != "esri":
                rcfg["loc"] = cur[j]
            _LOC, shape, _order = hg.ref(rcfg)
            who = "grid" if j == 0 else f"copy#{j}"
            if o.data_location.name != cur[j]:
                ctx.violation("location-state", f"{who}: data_location is {o.data_location.name}, expected {cur[j]} after {op}")
                return
            if tuple(o.data_shape) != tuple(shape):
                ctx.violation("stale-data_shape", f"after {op}: {who}.data_shape {o.data_shape}, a fresh grid with location {cur[j]} has {shape}")
                return
            if int(o.data_size) != int(np.prod(shape)):
                ctx.violation("stale-data_size", f"after {op}: {who}.data_size {o.data_size}, fresh grid has {int(np.prod(shape))}")
                return
            if not _close(o.data_points, hg.flat_locs(rcfg)):
                ctx.violation("stale-data_points", f"after {op}: {who}.data_points differ from a fresh grid with location {cur[j]}")
                return
    ctx.event("history-with-change-after-read" if changed_after_read else "history-plain")
    if copies:
        ctx.event("history-with-copies")
    ctx.nontrivial(changed_after_read)


_idx = st.integers(0, 3)
op_st = st.one_of(
    st.tuples(st.just("read"), st.sampled_from(READS), _idx),
    st.tuples(st.just("read"), st.sampled_from(["data_shape", "data_size", "data_points"]), _idx),
    st.tuples(st.just("copy"), st.booleans(), _idx),
    st.tuples(st.just("setloc"), st.sampled_from(LOCS), _idx),
    st.tuples(st.just("setloc"), st.sampled_from(["CELLS", "POINTS"]), _idx),
    st.tuples(st.just("setloc"), st.sampled_from(["CELLS", "POINTS"]), _idx),
).map(list)

# ESRI grids admit only CELLS, so a location change can only happen on rect/uni grids
history_st = st.fixed_dictionaries(
    {
        "grid": st.one_of(hg.grid_cfg(classes=("rect", "uni")), hg.grid_cfg(classes=("rect", "uni")), hg.grid_cfg()),
        "ops": st.lists(op_st, min_size=2, max_size=12),
    }
)


# ------------------------------------------------------------------ large grids (block / chunk boundaries)
def check_large(cfg, ctx):
    """the same questions as check_layout, vectorised, for grids with 2^15 .. 2^17+ cells (sizes straddling the
    powers of two at which block-wise implementations switch paths), plus a large mixed unstructured grid"""
    import finam as fm
    from finam.data.grid_tools import NODE_COUNT

    ctx.nontrivial(True)
    if cfg["cls"] == "mixed":
        n, m = cfg["quads"], cfg["tris"]
        k = np.arange(n + m, dtype=float)
        # cell k owns its own nodes: a unit square (or its lower triangle) at x-offset 2k; shuffled deterministically
        pts = np.empty((4 * (n + m), 2))
        pts[0::4] = np.stack([2 * k, 0 * k], 1)
        pts[1::4] = np.stack([2 * k + 1, 0 * k], 1)
        pts[2::4] = np.stack([2 * k + 1, 0 * k + 1], 1)
        pts[3::4] = np.stack([2 * k, 0 * k + 1], 1)
        cells = np.arange(4 * (n + m)).reshape(-1, 4)
        is_tri = (np.arange(n + m) * 7919 % (n + m)) < m
        cells[is_tri, 3] = -1
        types = np.where(is_tri, fm.CellType.TRI.value, fm.CellType.QUAD.value)
        g = fm.UnstructuredGrid(points=pts, cells=cells, cell_types=types, data_location=cfg["loc"])
        want = np.where(is_tri[:, None], (pts[0::4] + pts[1::4] + pts[2::4]) / 3.0, (pts[0::4] + pts[1::4] + pts[2::4] + pts[3::4]) / 4.0)
        ctx.event("mixed-unstructured")
        if not _close(g.cell_centers, want):
            bad = int(np.sum(~np.isclose(np.asarray(g.cell_centers), want).all(axis=1)))
            ctx.violation("large-cell_centers", f"unstructured grid with {n} quads + {m} triangles: {bad} cell centres differ from the node means")
        if cfg["loc"] == "CELLS" and not _close(g.data_points, want):
            ctx.violation("large-data_points", "data_points of a cell-located unstructured grid are not its node means")
        return
    if cfg["cls"] == "rect_arange":  # compact case description of a long rectilinear axis with uneven gaps
        k = np.arange(cfg["n"], dtype=float)
        cfg = {"cls": "rect", "axes": [(k * 0.5 + (k % 3) * 0.125).tolist()], "order": cfg["order"], "rev": False, "loc": cfg["loc"]}
    g = hg.build(cfg)
    _LOC, shape, _order = hg.ref(cfg)
    flat = hg.flat_locs(cfg)
    ctx.event(f"cells~2^{int(np.log2(max(1, g.cell_count)))}")
    if tuple(g.data_shape) != tuple(shape) or int(g.data_size) != len(flat):
        ctx.violation("large-data_shape", f"data_shape {g.data_shape} size {g.data_size} vs reference {shape}")
        return
    if not _close(g.data_points, flat):
        ctx.violation("large-data_points", f"data_points differ from reference for {_short(cfg)}")
    pts, cells, ctypes = np.asarray(g.points), np.asarray(g.cells), np.asarray(g.cell_types)
    nn = NODE_COUNT[int(ctypes[0])]
    if len(set(ctypes.tolist())) != 1 or cells.min() < 0 or cells.max() >= len(pts):
        ctx.violation("large-cells", "cell types / node ids inconsistent")
        return
    mean = pts[cells[:, :nn]].mean(axis=1)
    ccfg = dict(cfg)
    if cfg["cls"] != "esri":
        ccfg["loc"] = "CELLS"
    cref = hg.flat_locs(ccfg)
    u = g.to_unstructured()
    for name, got in (("cell_centers", g.cell_centers), ("unstructured-centers", u.cell_centers)):
        got = np.asarray(got)
        if not _close(got, mean) or not _close(got, cref):
            bad = int(np.sum(~np.isclose(got, cref).all(axis=1))) if got.shape == cref.shape else -1
            ctx.violation(f"large-{name}", f"{bad} of {len(cref)} cell centres differ from node means / cell data locations for {_short(cfg)}")
            break
    if not _close(u.data_points, flat):
        ctx.violation("large-unstructured-data_points", f"data points of the unstructured cast differ from reference for {_short(cfg)}")


def enum_dtypes(tier):
    """rectilinear axes handed over as float32 / integer arrays, lists or tuples, with coordinates that are exactly
    representable in that type but whose cell midpoints are not (projected coordinates of millions of metres)"""
    axsets = [
        [[32500000.0, 32500002.0, 32500004.0, 32500008.0]],
        [[5600000.0, 5600000.5, 5600001.0, 5600002.0], [32500008.0, 32500004.0, 32500000.0]],
        [[0.0, 1.0, 3.0, 4.0], [10.0, 7.0, 6.0]],
        [[0.0, 1.0, 3.0], [16777216.0, 16777218.0, 16777222.0], [1.0, 2.0]],
    ]
    for axes in axsets:
        for dt in ("float32", "int64", "int32", "list", "tuple", "float64"):
            if dt.startswith("int") and any(x != int(x) for a in axes for x in a):
                continue
            for order, rev in (("F", False), ("C", True)):
                for loc in ("CELLS", "POINTS"):
                    yield {"cls": "rect", "axes": axes, "order": order, "rev": rev, "loc": loc, "axdtype": dt}


def check_shared_axes(case, ctx):
    """the same ndarray objects handed to the constructor twice (a model building its grid and a copy for a reader,
    say): both grids must describe the same index -> coordinate mapping, and the caller's arrays stay untouched"""
    import finam as fm

    axes = [np.array(a, dtype=case["dtype"]) for a in case["axes"]]
    keep = [a.copy() for a in axes]
    kw = {"order": case["order"], "axes_reversed": case["rev"], "data_location": case["loc"]}
    g1 = fm.RectilinearGrid(axes=axes, **kw)
    touched = [i for i, (a, k) in enumerate(zip(axes, keep)) if not np.array_equal(a, k)]
    g2 = fm.RectilinearGrid(axes=axes, **kw)
    ctx.nontrivial(any(len(a) > 1 and a[0] > a[-1] for a in case["axes"]))
    ctx.event(f"axes-dtype={case['dtype']}")
    if touched:
        ctx.violation("constructor-modifies-caller-axes", f"RectilinearGrid changed the caller's axis array(s) {touched}: {[k.tolist() for k in keep]} -> {[a.tolist() for a in axes]}")
        return
    if list(g1.axes_increase) != list(g2.axes_increase) or not _close(g1.data_points, g2.data_points):
        ctx.violation("same-arguments-different-grid", f"two grids built from the same axis arrays differ: axes_increase {list(g1.axes_increase)} / {list(g2.axes_increase)}")
        return
    ref = {"cls": "rect", "axes": [list(map(float, a)) for a in case["axes"]], "order": case["order"], "rev": case["rev"], "loc": case["loc"]}
    if not _close(g2.data_points, hg.flat_locs(ref)):
        ctx.violation("shared-axes-data_points", "grid built from re-used axis arrays has other data points than the reference")


def enum_shared_axes(tier):
    axsets = [[[3.0, 2.0, 0.0]], [[0.0, 1.0, 3.0], [4.0, 3.0, 2.0, 1.0]], [[5.0, 1.0], [0.0, 2.0], [9.0, 8.0, 6.0]], [[2.0]]]  # whole numbers: exact in every dtype
    for axes in axsets:
        for dt in ("float64", "float32", "int64"):
            for order, rev in (("F", False), ("C", True)):
                for loc in ("CELLS", "POINTS"):
                    yield {"axes": axes, "dtype": dt, "order": order, "rev": rev, "loc": loc}


def _short(cfg):
    return {k: (v if not isinstance(v, list) or len(v) < 8 else f"<{len(v)} values>") for k, v in cfg.items()}


def enum_large(tier):
    sizes1 = [32769, 65536, 65537, 65538, 70001, 131073, 140001]
    for n in sizes1:
        for inc in (True, False):
            for loc in ("CELLS", "POINTS"):
                yield {"cls": "uni", "dims": [n], "spacing": [0.5], "origin": [-3.0], "inc": [inc], "order": "F", "rev": False, "loc": loc}
    for dims in ([257, 257], [258, 257], [300, 260], [3, 40001], [363, 363]):
        for order, rev, inc in (("F", False, [True, True]), ("C", True, [True, False]), ("C", False, [False, True]), ("F", True, [False, False])):
            for loc in ("CELLS", "POINTS"):
                yield {"cls": "uni", "dims": dims, "spacing": [0.5, 2.0], "origin": [1.0, -8.0], "inc": inc, "order": order, "rev": rev, "loc": loc}
    for dims in ([41, 41, 41], [42, 42, 41], [52, 52, 52]):
        for order, rev, inc in (("F", False, [True, True, True]), ("C", True, [True, False, True])):
            yield {"cls": "uni", "dims": dims, "spacing": [1.0, 0.5, 2.0], "origin": [0.0, 0.0, 4.0], "inc": inc, "order": order, "rev": rev, "loc": "CELLS"}
    yield {"cls": "esri", "ncols": 300, "nrows": 260, "cellsize": 2.0, "xll": 10.0, "yll": -6.0, "order": "C"}
    # every row length from 2 to 400 cells (two or three rows): index arithmetic that is exact only for some lengths
    for n in range(2, 401):
        k = n % 4
        yield {"cls": "uni", "dims": [n + 1, 3 + (n % 2)], "spacing": [0.5, 2.0], "origin": [1.0, -8.0], "inc": [k != 1, k != 2],
               "order": "F" if k < 2 else "C", "rev": k == 3, "loc": "CELLS" if n % 3 else "POINTS"}
    for n in (49, 98, 103, 107, 161, 187, 196, 197, 255, 256, 257):
        yield {"cls": "esri", "ncols": n, "nrows": 3, "cellsize": 2.0, "xll": 10.0, "yll": -6.0, "order": "C"}
        yield {"cls": "uni", "dims": [3, n + 1, 1], "spacing": [1.0, 0.5, 2.0], "origin": [0.0, 0.0, 4.0], "inc": [True, True, True], "order": "F", "rev": False, "loc": "CELLS"}
    yield {"cls": "rect_arange", "n": 70002, "order": "C", "loc": "CELLS"}
    yield {"cls": "rect_arange", "n": 65538, "order": "F", "loc": "POINTS"}
    for q, t in ((70000, 0), (40000, 70000), (65537, 65537), (66000, 100)):
        for loc in ("CELLS", "POINTS"):
            yield {"cls": "mixed", "quads": q, "tris": t, "loc": loc}


def parts():
    return [
        Part("layouts_enum", check_layout, enumerate=lambda tier: hg.enum_layouts(), exhaustive=True),
        Part("layouts_gen", check_layout, strategy=hg.grid_cfg(), strategy_thorough=hg.grid_cfg(max_len=6), budget={"quick": 3000, "thorough": 60000}),
        Part("shared_axes_enum", check_shared_axes, enumerate=enum_shared_axes, exhaustive=True),
        Part("axis_types_enum", check_layout, enumerate=enum_dtypes, exhaustive=True),
        Part("large_enum", check_large, enumerate=enum_large, exhaustive=True),
        Part("history", check_history, strategy=history_st, budget={"quick": 3000, "thorough": 60000}),
    ]
