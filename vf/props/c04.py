"""C04 - unresolvable dependency cycles are reported; delay-resolved cycles run."""
from .. import h_sched as S
from .. import h_sched_gen as G
from hypothesis import strategies as st

from ..runner import Part

PROP = "C04"
RULE = (
    "rings of 2-5 time-stepped models (steps 1-5 min, varying; a quarter with staggered start times), optional chord (closing a second cycle), tail "
    "and pull-based member, pass-through/linear adapters anywhere, all listing and link orders; delay mode "
    "none | dependency-breaking adapter | sufficient total on one adapter | sufficient total split over 2-3 "
    "adapters of one link | sufficient total spread over several links | insufficient (1..need-1), need = sum "
    "of the largest steps on the ring. Oracle: none => FinamCircularCouplingError and nothing else (no hang: "
    "deterministic update/connect bounds, no RecursionError, no time/no-data error); sufficient / breaking "
    "modes => run completes and the C01/C02/C03 monitors are clean at every update; insufficient => either "
    "of the two, nothing else. A quarter of the rings have a parallel link: one member reads its predecessor's output "
    "(a model's or the pull-based member's) twice, through two inputs with different delays, the extra one declared first or last. non-trivial = ring >= 3 members, or split delays, or a chord. distinct = JSON."
)
ASSUMPTIONS = [
    "sufficiency: a reported cycle needs t_{i+1} < t_i + s_i - d_i around the ring, so sum d >= sum of largest steps excludes it",
    "a chord closes a second cycle and therefore carries its own sufficient delay in the modes that promise a run",
    "staggered starts (a quarter of the rings): an undelayed ring may complete if the run ends before the cycle becomes active (data published at connect time suffices); it is then judged by the C01/C02/C03 monitors like any completed run",
]


def check(spec, ctx):
    mode = spec["mode"]
    outcome, msg, trace, b = S.run(spec)
    ctx.event(f"mode={mode}:{outcome}")
    ctx.nontrivial(spec["ring"] >= 3 or mode in ("suff_split", "suff_multi") or spec["extra"] > 0)
    if any(c["kind"] == "thru" for c in spec["comps"]):
        ctx.event("pull-based-member")
    info = f" | mode {mode} need {spec['need']} total {spec['total']} links {spec['links']} order {spec['order']}"
    if outcome == "HarnessBound":
        ctx.violation("hang", msg + info)
        return
    if outcome == "RecursionError":
        ctx.violation("recursion", msg + info)
        return
    if outcome not in ("ok", "FinamCircularCouplingError"):
        ctx.violation(f"wrong-error:{outcome}", f"{msg[:200]}" + info)
        return
    starts = {c["start"] for c in spec["comps"] if c["kind"] == "model"}
    stag = len(starts) > 1 or spec["end"] <= max(starts)  # not everybody has to update: the cycle may stay inactive
    if len(starts) > 1:
        ctx.event("staggered-starts")
    if mode == "none" and outcome == "ok":
        if not stag:
            ctx.violation("cycle-not-reported", "ring without any delay ran to completion" + info)
            return
        # a late starter's connect-time publications (composition start and own start) can carry the others up to
        # its start: if the run ends before anybody needs data the cycle would have to produce, no dependency cycle
        # ever becomes active. Such a run is acceptable only with clean scheduling monitors (checked below).
        ctx.event("undelayed-ring-ends-before-the-cycle-is-active")
    if mode in ("suff", "suff_split", "suff_multi", "dpush") and outcome != "ok":
        ctx.violation(f"false-circular:{mode}", f"cycle with sufficient delay reported as circular: {msg[:160]}" + info)
        return
    if outcome == "ok":
        viol, _ = S.monitor(spec, trace, want=("C01", "C02"))
        for p, tag, m, _ev in viol:
            ctx.violation(f"{p}-{tag}", m + info)
            return
        for tag, m in S.lifecycle(spec, trace, b, outcome):
            ctx.violation(f"C03-{tag}", m + info)
            return


# ------------------------------------------------------------------ rings resolved by a calendar delay
_NODE = None


def _node_class():
    global _NODE  # pylint: disable=global-statement
    if _NODE:
        return _NODE
    from datetime import timedelta

    import finam as fm

    class Node(fm.TimeComponent):
        """daily-ish model with one input and one output; publishes the number of days since the common start"""

        def __init__(self, name, start, step_days, log):
            super().__init__()
            self._name, self._time, self.t0 = name, start, start
            self.step, self.log, self.n = timedelta(days=step_days), log, 0

        def _next_time(self):
            return self.time + self.step

        def _initialize(self):
            self.inputs.add(name="i", time=self.time, grid=fm.NoGrid(), units=None)
            self.outputs.add(name="o", time=self.time, grid=fm.NoGrid(), units="")
            self.create_connector(pull_data=["i"])

        def _connect(self, start_time):
            self.try_connect(start_time, push_data={"o": 0.0})

        def _validate(self):
            pass

        def _update(self):
            t = self.next_time
            self.n += 1
            if self.n > 400:
                raise S.HarnessBound(f"{self.name}: more than 400 updates")
            v = self.inputs["i"].pull_data(t)
            self.log.append((self.name, t, float(v.magnitude.ravel()[0])))
            self._time = t
            self.outputs["o"].push_data(float((t - self.t0).days), t)

        def _finalize(self):
            pass

    _NODE = Node
    return Node


def check_calendar_ring(case, ctx):
    """A <-> B, the link A -> B delayed by a calendar delay (relativedelta: a month is never shorter than the two
    steps together, so the cycle is resolved); starts on arbitrary dates incl. month ends. The run must complete and
    B must receive, for a pull at t, A's publication for max(t - delay, start) (A steps daily)."""
    from datetime import datetime, timedelta

    import finam as fm
    from dateutil.relativedelta import relativedelta

    Node = _node_class()
    start = datetime(*case["start"])
    delay = relativedelta(**case["delay"])
    log = []
    a, b = Node("A", start, 1, log), Node("B", start, case["step_b"], log)
    comp = fm.Composition([a, b] if case["a_first"] else [b, a], print_log=False)
    x = a.outputs["o"]
    if case["scale"]:
        x = x >> fm.adapters.Scale(1.0)
    x >> fm.adapters.DelayFixed(delay) >> b.inputs["i"]
    b.outputs["o"] >> a.inputs["i"]
    end = start + timedelta(days=case["days"])
    info = f" | start {start.date()} delay {case['delay']} step_b {case['step_b']} a_first {case['a_first']}"
    ctx.nontrivial(start.day >= 28 or "months" in case["delay"])
    if start.day >= 29:
        ctx.event("start-at-month-end")
    try:
        comp.run(end_time=end)
    except S.HarnessBound as e:
        ctx.violation("hang", str(e) + info)
        return
    except fm.FinamCircularCouplingError as e:
        ctx.violation("false-circular:calendar", f"cycle resolved by a calendar delay reported as circular: {str(e)[:120]}" + info)
        return
    except (fm.FinamTimeError, fm.FinamNoDataError) as e:
        ctx.violation(f"wrong-error:{type(e).__name__}", f"{str(e)[:160]}" + info)
        return
    if a.time < end or b.time < end:
        ctx.violation("C03-end-not-reached", f"A at {a.time}, B at {b.time}, end {end}" + info)
        return
    for name, t, v in log:
        if name == "B":
            want = max(t - delay, start)
            if v != float((want - start).days):
                ctx.violation("calendar-ring-value", f"B pulled at {t.date()} and got A's day {v}, expected day {(want - start).days} ({want.date()})" + info)
                return


@st.composite
def calendar_ring_case(draw):
    y = draw(st.sampled_from([2001, 2003, 2004]))
    m = draw(st.integers(1, 12))
    dmax = [31, 29 if y == 2004 else 28, 31, 30, 31, 30, 31, 31, 30, 31, 30, 31][m - 1]
    d = draw(st.one_of(st.integers(1, dmax), st.integers(max(1, dmax - 3), dmax)))
    delay = draw(st.sampled_from([{"months": 1}, {"months": 1}, {"months": 2}, {"months": 1, "days": 2}, {"days": 5}, {"weeks": 1}, {"years": 1}]))
    return {"start": [y, m, d], "delay": delay, "step_b": draw(st.integers(1, 3)), "a_first": draw(st.booleans()), "scale": draw(st.booleans()),
            "days": 400 if "years" in delay else draw(st.integers(40, 100))}


def enum_large_ratio_rings(tier):
    """a slow and a fast model in a ring resolved by a delay on either link: one update of the slow member is
    preceded by 1000-4100 updates of the fast one (a daily model coupled to a minutely one)"""
    def m(n, steps):
        return {"kind": "model", "name": n, "start": 0, "steps": steps, "ins": ["i0"], "outs": ["o"]}

    for r in ((1001, 1440) if tier == "quick" else (960, 1000, 1001, 1024, 1440, 2049, 4100)):
        for order in (["M0", "M1"], ["M1", "M0"]):
            for on_fast in (True, False):
                d = [["dfix", r + 1]]
                links = [["M0", "o", d if on_fast else [], "M1", "i0"], ["M1", "o", [] if on_fast else d, "M0", "i0"]]
                yield {"comps": [m("M0", [r]), m("M1", [1])], "links": links, "order": order, "end": 2 * r + 3, "mode": "suff", "need": r + 1,
                       "total": r + 1, "ring": 2, "extra": 1, "excluded": ["info:large-step-ratio"], "tick_us": None, "t0": None}


def parts():
    return [Part("large_ratio_rings_enum", check, enumerate=enum_large_ratio_rings, exhaustive=True),
            Part("calendar_rings", check_calendar_ring, strategy=calendar_ring_case(), budget={"quick": 150, "thorough": 5000}, shrink_budget=100),
            Part("rings", check, strategy=G.ring_spec(), strategy_thorough=G.ring_spec(max_n=7), budget={"quick": 1400, "thorough": 80000}, fuzz={"thorough": 6000})]
