"""C04 - unresolvable dependency cycles are reported; delay-resolved cycles run."""
from .. import h_sched as S
from .. import h_sched_gen as G
from ..runner import Part

PROP = "C04"
RULE = (
    "rings of 2-5 time-stepped models (steps 1-5 min, varying; a quarter with staggered start times), optional chord (closing a second cycle), tail "
    "and pull-based member, pass-through/linear adapters anywhere, all listing and link orders; delay mode "
    "none | dependency-breaking adapter | sufficient total on one adapter | sufficient total split over 2-3 "
    "adapters of one link | sufficient total spread over several links | insufficient (1..need-1), need = sum "
    "of the largest steps on the ring. Oracle: none => FinamCircularCouplingError and nothing else (no hang: "
    "deterministic update/connect bounds, no RecursionError, no time/no-data error); sufficient / breaking "
    "modes => run completes and the C01/C02/C03 monitors are clean at every update; insufficient => either "
    "of the two, nothing else. non-trivial = ring >= 3 members, or split delays, or a chord. distinct = JSON."
)
ASSUMPTIONS = [
    "sufficiency: a reported cycle needs t_{i+1} < t_i + s_i - d_i around the ring, so sum d >= sum of largest steps excludes it",
    "a chord closes a second cycle and therefore carries its own sufficient delay in the modes that promise a run",
    "staggered starts (a quarter of the rings): an undelayed ring may complete if the run ends before the cycle becomes active (data published at connect time suffices); it is then judged by the C01/C02/C03 monitors like any completed run",
]


def check(spec, ctx):
    mode = spec["mode"]
    outcome, msg, trace, b = S.run(spec)
    ctx.event(f"mode={mode}:{outcome}")
    ctx.nontrivial(spec["ring"] >= 3 or mode in ("suff_split", "suff_multi") or spec["extra"] > 0)
    if any(c["kind"] == "thru" for c in spec["comps"]):
        ctx.event("pull-based-member")
    info = f" | mode {mode} need {spec['need']} total {spec['total']} links {spec['links']} order {spec['order']}"
    if outcome == "HarnessBound":
        ctx.violation("hang", msg + info)
        return
    if outcome == "RecursionError":
        ctx.violation("recursion", msg + info)
        return
    if outcome not in ("ok", "FinamCircularCouplingError"):
        ctx.violation(f"wrong-error:{outcome}", f"{msg[:200]}" + info)
        return
    starts = {c["start"] for c in spec["comps"] if c["kind"] == "model"}
    stag = len(starts) > 1 or spec["end"] <= max(starts)  # not everybody has to update: the cycle may stay inactive
    if len(starts) > 1:
        ctx.event("staggered-starts")
    if mode == "none" and outcome == "ok":
        if not stag:
            ctx.violation("cycle-not-reported", "ring without any delay ran to completion" + info)
            return
        # a late starter's connect-time publications (composition start and own start) can carry the others up to
        # its start: if the run ends before anybody needs data the cycle would have to produce, no dependency cycle
        # ever becomes active. Such a run is acceptable only with clean scheduling monitors (checked below).
        ctx.event("undelayed-ring-ends-before-the-cycle-is-active")
    if mode in ("suff", "suff_split", "suff_multi", "dpush") and outcome != "ok":
        ctx.violation(f"false-circular:{mode}", f"cycle with sufficient delay reported as circular: {msg[:160]}" + info)
        return
    if outcome == "ok":
        viol, _ = S.monitor(spec, trace, want=("C01", "C02"))
        for p, tag, m, _ev in viol:
            ctx.violation(f"{p}-{tag}", m + info)
            return
        for tag, m in S.lifecycle(spec, trace, b, outcome):
            ctx.violation(f"C03-{tag}", m + info)
            return


def parts():
    return [Part("rings", check, strategy=G.ring_spec(), strategy_thorough=G.ring_spec(max_n=7), budget={"quick": 1400, "thorough": 80000}, fuzz={"thorough": 6000})]
