"""C07 - after connect both ends of every link agree on metadata; conflicts are rejected."""
from datetime import timedelta

import numpy as np
from hypothesis import strategies as st

from .. import h_grid as hg
from .. import h_slot as hs
from .. import h_units as hu
from ..runner import Part
from .c15 import field, maskfn

PROP = "C07"
RULE = (
    "real compositions of one producer output and 1-3 consumers (direct, behind Scale, or behind a "
    "metadata-rewriting adapter: SumOverTime(per_time) rewrites units, GridToValue / ValueToGrid rewrite the "
    "grid). Producer fields (time, grid from a pool of NoGrid / uniform / rectilinear layouts, units from the "
    "catalogue, mask FLEX / NONE / fixed, one extra meta key) are each set or unset; each consumer is derived "
    "from the producer per field: same | unset | compatible variant (other layout of the same geometry, other "
    "unit of the same dimension, equal mask in the other layout) | conflicting variant; all listing orders. "
    "Oracle: (a) a field set on both ends with conflicting values => FinamMetaDataError; (b) success => no "
    "unset field in any input info, input grid == delivered locations, units of one dimension, mask rule "
    "satisfied, fields unset on one side carry the other side's value (both directions, through adapters by "
    "their documented rewrite), initial pull fits the input info; (c) producer fully set and all consumers "
    "compatible => must succeed. non-trivial = >=1 unset field filled from the other side, or >=2 consumers, "
    "or a rewriting adapter. distinct = canonical JSON."
    " A quarter of the structured grids carry a coordinate reference system (EPSG:4326, OGC:CRS84 = same datum with the axes "
    "swapped, EPSG:32633); equal numbers under another reference system are other locations => conflict. crs_enum: geometry x "
    "location x producer CRS x consumer CRS x layout x adapter x listing order, otherwise conflict-free (512 cases, exhaustive)."
)
ASSUMPTIONS = [
    "grid compatibility oracle = equal sets of data locations per vf/h_grid.py; units oracle = vf/h_units.py",
    "Info(mask=None) is not generated on component slots (not a documented value)",
    "under-specified combinations (a field unset on both ends) only have to satisfy (b) if they happen to succeed",
    "ValueToGrid is generated with grid=None or a grid equal to the consumer's (its docstring compares with ==)",
]

GEOMS = {
    "A": {"cls": "uni", "dims": [4, 3], "spacing": [1.0, 0.5], "origin": [0.0, -1.0], "inc": [True, True], "order": "F", "rev": False, "loc": "CELLS"},
    "B": {"cls": "uni", "dims": [5, 3], "spacing": [1.0, 0.5], "origin": [0.0, -1.0], "inc": [True, True], "order": "F", "rev": False, "loc": "CELLS"},
    "R": {"cls": "rect", "axes": [[0.0, 1.0, 3.0], [1.0, 2.0, 2.5, 4.0]], "order": "F", "rev": False, "loc": "CELLS"},
    # same shape as A, shifted by one cell: every location differs, no shape test can notice
    "A2": {"cls": "uni", "dims": [4, 3], "spacing": [1.0, 0.5], "origin": [1.0, -1.0], "inc": [True, True], "order": "F", "rev": False, "loc": "CELLS"},
    # A and A2 with micrometre cells (coordinates in metres)
    "a": {"cls": "uni", "dims": [4, 3], "spacing": [1.0e-6, 0.5e-6], "origin": [0.0, -1.0e-6], "inc": [True, True], "order": "F", "rev": False, "loc": "CELLS", "_scale": 1.0e-6},
    "a2": {"cls": "uni", "dims": [4, 3], "spacing": [1.0e-6, 0.5e-6], "origin": [1.0e-6, -1.0e-6], "inc": [True, True], "order": "F", "rev": False, "loc": "CELLS", "_scale": 1.0e-6},
}
UFAM = {"U": (1.0, False), "V": (1.0, True), "u": (1.0e-6, False), "v": (1.0e-6, True)}  # unstructured: scale, one node moved
SIBLING = {"A": "A2", "A2": "A", "a": "a2", "a2": "a", "U": "V", "V": "U", "u": "v", "v": "u"}

_CLS = None


def _cls():
    global _CLS  # pylint: disable=global-statement
    if _CLS:
        return _CLS
    import finam as fm

    class Prod(fm.TimeComponent):
        def __init__(self, info, payload, every_call=False):
            super().__init__()
            self._time = hs.T0
            self.info, self.payload, self.every_call = info, payload, every_call

        def _next_time(self):
            return self.time + timedelta(minutes=10)

        def _initialize(self):
            if self.every_call:
                self.outputs.add(name="o")
            else:
                self.outputs.add(name="o", info=self.info())
            self.create_connector()

        def _connect(self, start_time):
            pd = {}
            if self.connector.data_required["o"] and self.connector.out_infos["o"] is not None:
                pd["o"] = self.payload(self.connector.out_infos["o"])
            # documented: infos may be passed again on every call (a freshly built object each time)
            pi = {"o": self.info()} if self.every_call else {}
            self.try_connect(start_time, push_infos=pi, push_data=pd)

        def _validate(self):
            pass

        def _update(self):
            self._time = self.next_time

        def _finalize(self):
            pass

    class Cons(fm.TimeComponent):
        def __init__(self, name, info, late=0):
            super().__init__()
            self._name = name
            self._time = hs.T0
            self.info, self.late, self.calls = info, late, 0

        def _next_time(self):
            return self.time + timedelta(minutes=10)

        def _initialize(self):
            if self.late:
                self.inputs.add(name="i")  # its info becomes available only after `late` connect calls
            else:
                self.inputs.add(name="i", info=self.info)
            self.create_connector(pull_data=["i"])

        def _connect(self, start_time):
            self.calls += 1
            ex = {"i": self.info} if (self.late and self.calls >= self.late and self.connector.in_infos["i"] is None) else {}
            self.try_connect(start_time, exchange_infos=ex)

        def _validate(self):
            pass

        def _update(self):
            self._time = self.next_time

        def _finalize(self):
            pass

    _CLS = (Prod, Cons)
    return _CLS


def grid_of(g):
    """g = None | ["N", dim] | [geom, loc, order, rev, dec...]"""
    import finam as fm

    if g is None:
        return None, None
    if g[0] == "N":
        return fm.NoGrid(g[1]), None
    if g[0] in UFAM:
        scale, moved = UFAM[g[0]]
        pts = [[0.0, 0.0], [1.0, 0.0], [2.0, 0.0], [0.0, 1.0], [1.0, 1.25 if moved else 1.5], [2.0, 1.0]]
        pts = [[x * scale, y * scale] for x, y in pts]
        cells = [[0, 1, 3], [1, 4, 3], [1, 2, 4], [2, 5, 4], [0, 1, 4], [1, 2, 5]]  # as many cells as points
        return fm.UnstructuredGrid(pts, cells, [fm.CellType.TRI] * 6, data_location=g[1]), "U"
    base = dict(GEOMS[g[0]])
    base["loc"] = g[1]
    cfg = hg.same_geometry_layout(base, g[2], g[3], g[4])
    if len(g) > 5 and g[5] is not None:
        cfg = dict(cfg, crs=g[5])  # coordinate reference system: part of what the locations mean
    return hg.build(cfg), cfg


def same_locations(g1, g2):
    crs1, crs2 = (g1[5] if len(g1) > 5 else None), (g2[5] if len(g2) > 5 else None)
    return g1[0] == g2[0] and g1[1] == g2[1] and crs1 == crs2  # same geometry (or NoGrid dim), data location and CRS


def mask_of(m, cfg):
    import finam as fm

    if m == "FLEX":
        return fm.Mask.FLEX
    if m == "NONE":
        return fm.Mask.NONE
    if m == "nomask":
        return np.ma.nomask
    if cfg == "U":
        mk = np.array([True, False, False, True, False, False])
        return mk if m == "fixed" else ~mk
    LOC, _, _ = hg.ref(cfg)
    mk = maskfn(np.round(LOC / cfg.get("_scale", 1.0), 6))  # the pattern follows the cells, not the length unit
    return mk if m == "fixed" else ~mk


def mask_accepts(cons, prod):
    """True / False / None (not judged)"""
    if cons == "FLEX":
        return True
    if cons == "NONE":
        return None if prod == "nomask" else prod == "NONE"
    return prod == cons


def check(case, ctx):
    import finam as fm

    Prod, Cons = _cls()
    p = case["prod"]
    ada = case["adapter"]
    pgrid, pcfg = grid_of(p["grid"])
    pmask = p["mask"] if (pcfg is not None or p["mask"] in ("FLEX", "NONE")) else "FLEX"
    pmeta = {"foo": None if p["foo"] == "unset" else p["foo"]} if p["foo"] != "absent" else {}
    def pinfo():
        return fm.Info(
            time=hs.T0 if p["time"] else None,
            grid=pgrid,
            units=p["units"],
            mask=mask_of(pmask, pcfg),
            **dict(pmeta),
        )

    def payload(info):
        g = info.grid
        if isinstance(g, fm.NoGrid):
            return np.full((3,) * g.dim, 5.0) if g.dim else 5.0
        data = np.arange(int(g.data_size), dtype=float).reshape(g.data_shape, order=g.order) + 1.0
        if fm.data.tools.mask_specified(info.mask) and info.mask is not None:
            return np.ma.array(data, mask=info.mask)
        return data

    prod = Prod(pinfo, payload, every_call=bool(p.get("every_call")))
    if p.get("every_call"):
        ctx.event("producer-info-on-every-call")
    cons, cinfos = [], []
    for k, c in enumerate(case["cons"]):
        cgrid, ccfg = grid_of(c["grid"])
        if case.get("prehistory") and ccfg is not None and pgrid is not None and pcfg is not None:
            # the consumer's grid object has a history: it was created for the other data location, compared with the
            # producer's grid (as an earlier coupling would have done), and then switched to the location it has in
            # this case through the documented setter. What connect decides may depend on what the grids are now only.
            flipped = "POINTS" if c["grid"][1] == "CELLS" else "CELLS"
            cgrid, _cfg0 = grid_of([c["grid"][0], flipped] + list(c["grid"][2:]))
            pgrid.compatible_with(cgrid)
            cgrid.compatible_with(pgrid)
            _eq = (pgrid == cgrid, cgrid == pgrid)
            cgrid.data_location = c["grid"][1]
            ctx.event("consumer-grid-object-with-history")
        cm = c["mask"]
        if cm not in ("FLEX", "NONE") and ccfg is None:
            cm = "FLEX"
        c["_mask"] = cm
        cmeta = {"foo": None if c["foo"] == "unset" else c["foo"]} if c["foo"] != "absent" else {}
        ci = fm.Info(time=hs.T0 if c["time"] else None, grid=cgrid, units=c["units"], mask=mask_of(cm, ccfg), **cmeta)
        cinfos.append(ci)
        cons.append(Cons(f"C{k}", ci, late=c.get("late", 0)))
        if c.get("late"):
            ctx.event("consumer-info-late")
    comps = [prod] + cons
    order = []
    for i in case["order"][: len(comps)]:
        if comps[i % len(comps)] not in order:
            order.append(comps[i % len(comps)])
    order += [c for c in comps if c not in order]
    comp = fm.Composition(order, print_log=False)
    adas = []
    for c in cons:
        x = prod.outputs["o"]
        if ada == "scale":
            a = fm.adapters.Scale(1.0)
        elif ada == "sum":
            a = fm.adapters.SumOverTime(per_time=True)
        elif ada == "grid2val":
            a = fm.adapters.GridToValue(func=np.mean)
        elif ada == "val2grid":
            a = fm.adapters.ValueToGrid(grid=None)
        else:
            a = None
        if a is not None:
            adas.append(a)
            x = x >> a
        x >> c.inputs["i"]
    try:
        comp.connect(hs.T0)
        got = "ok"
    except fm.FinamMetaDataError as e:
        got, msg = "meta", str(e)
    except (fm.FinamCircularCouplingError, fm.FinamNoDataError) as e:
        got, msg = "stuck", str(e)
    # ---------------- expectations
    conflicts, under = [], []
    full = p["time"] and p["grid"] is not None and p["units"] is not None and p["foo"] != "unset"
    for k, c in enumerate(case["cons"]):
        # effective producer-side values as seen by the consumer (after the adapter's documented rewrite)
        eg, eu = p["grid"], p["units"]
        if ada == "grid2val":
            eg = ["N", 0]
        if ada == "val2grid":
            eg = c["grid"]  # takes the target's grid
            if p["grid"] is not None and p["grid"] != ["N", 0]:
                conflicts.append(f"C{k}: ValueToGrid needs a NoGrid() source")
        if ada == "sum" and eu is not None:
            eu = {"m/s": "m", "mm/d": "mm", "m": "m s", "kg m-2 s-1": "kg m-2", "1": "s", "": "s"}.get(eu)
            if eu is None:
                ctx.event("sum-on-uncatalogued-unit")
                return
        if ada == "grid2val" and c["grid"] is not None and c["grid"] != ["N", 0]:
            conflicts.append(f"C{k}: consumer grid on a GridToValue link")
        if ada not in ("grid2val", "val2grid") and eg is not None and c["grid"] is not None and not same_locations(eg, c["grid"]):
            conflicts.append(f"C{k}: grid")
        if eu is not None and c["units"] is not None:
            if not hu.compatible(eu, c["units"]):
                conflicts.append(f"C{k}: units {eu} vs {c['units']}")
        judge_mask = ada != "grid2val" or pmask in ("FLEX", "NONE")  # a mask array after aggregation: undocumented
        if not judge_mask or mask_accepts(c["_mask"], pmask) is None:
            under.append(k)
        elif not mask_accepts(c["_mask"], pmask):
            if c["_mask"] in ("fixed", "other", "nomask") and pmask in ("fixed", "other", "nomask") and not (eg and c["grid"] and same_locations(eg, c["grid"])):
                pass  # masks only comparable on the same geometry; the grid conflict is judged above
            else:
                conflicts.append(f"C{k}: mask {pmask}->{c['_mask']}")
        if (eg is None and c["grid"] is None) or (eu is None and c["units"] is None) or (not p["time"] and not c["time"]):
            under.append(k)
        if p["foo"] == "unset" and c["foo"] in ("absent", "unset"):
            under.append(k)
    if ada == "grid2val" and p["grid"] is None:
        under.append(-1)
    # several consumers providing a field the producer left open must agree among themselves
    if len(case["cons"]) > 1:
        if p["grid"] is None:
            gs = [c["grid"] for c in case["cons"] if c["grid"] is not None]
            if any(not same_locations(gs[0], g) for g in gs[1:]):
                conflicts.append("consumers disagree on the grid the producer left open")
            if any(g != gs[0] for g in gs[1:]):
                under.append(-3)  # first consumer fixes the layout: acceptance of the others is layout business
        if p["units"] is None:
            us = [c["units"] for c in case["cons"] if c["units"] is not None]
            if any(not hu.compatible(us[0], u) for u in us[1:]):
                conflicts.append("consumers disagree on the units the producer left open")
    ctx.event(f"adapter={ada}")
    ctx.event(f"outcome={got}")
    ctx.event("expected-conflict" if conflicts else ("under-specified" if under else "expected-ok"))
    filled = any(c["grid"] is None or c["units"] is None or not c["time"] for c in case["cons"]) or not full
    crs_differs = any(p["grid"] and c["grid"] and list(p["grid"][5:]) != list(c["grid"][5:]) for c in case["cons"])
    if crs_differs:
        ctx.event("reference-systems-differ")
    ctx.nontrivial(filled or len(case["cons"]) >= 2 or ada in ("sum", "grid2val", "val2grid") or crs_differs)
    info = f" | case {case}"
    if got == "stuck" and any(c.get("late", 0) >= 2 for c in case["cons"]):
        # a consumer that sits idle for a sweep may trip the stall detection of the connect loop: not judged here
        ctx.event("stall-by-late-info(not judged)")
        return
    if conflicts and got == "ok":
        ctx.violation("conflict-accepted", f"{conflicts[:2]} but connect() succeeded" + info)
        return
    if not conflicts and not under and full and got != "ok":
        ctx.violation("compatible-rejected", f"fully specified compatible metadata rejected ({got}: {msg[:160]})" + info)
        return
    if got != "ok":
        return
    # ---------------- (b) agreement after a successful connect
    oinfo = prod.outputs["o"].info
    for k, (c, comp_c) in enumerate(zip(case["cons"], cons)):
        ii = comp_c.inputs["i"].info
        if ii.time is None or ii.grid is None or ii.units is None or ii.mask is None or any(v is None for v in ii.meta.values()):
            ctx.violation("unset-field-after-connect", f"C{k} input info has an unset field: {ii!r} time={ii.time}" + info)
            return
        src_info = adas[k].info if adas else oinfo
        data = comp_c.connector.in_data["i"]
        # grid: same locations as the delivered grid, own layout kept
        if c["grid"] is not None:
            if ii.grid != cinfos[k].grid:
                ctx.violation("consumer-grid-overridden", f"C{k} set its grid but ended with {ii.grid!r}" + info)
                return
        elif ii.grid != src_info.grid:
            ctx.violation("grid-not-carried", f"C{k} left the grid open but got {ii.grid!r} instead of the delivered {src_info.grid!r}" + info)
            return
        if not ii.grid.compatible_with(src_info.grid):
            ctx.violation("grid-disagrees", f"C{k} input grid {ii.grid!r} incompatible with delivered {src_info.grid!r}" + info)
            return
        # units
        if c["units"] is not None:
            if ii.units != fm.UNITS.Unit(c["units"]):
                ctx.violation("consumer-units-overridden", f"C{k} declared {c['units']!r} but ended with {ii.units!s}" + info)
                return
        elif ii.units != src_info.units:
            ctx.violation("units-not-carried", f"C{k} left units open but got {ii.units!s} instead of {src_info.units!s}" + info)
            return
        if not fm.data.tools.compatible_units(ii.units, src_info.units):
            ctx.violation("units-disagree", f"C{k} units {ii.units!s} not convertible from delivered {src_info.units!s}" + info)
            return
        # time
        if ii.time != hs.T0:
            ctx.violation("time-not-carried", f"C{k} input info time {ii.time}" + info)
            return
        # extra meta key: carried in both directions
        if p["foo"] not in ("absent", "unset") and c["foo"] in ("absent", "unset") and ii.meta.get("foo") != p["foo"]:
            ctx.violation("meta-not-carried-down", f"C{k} should carry producer meta foo={p['foo']!r}, has {ii.meta.get('foo')!r}" + info)
            return
        # delivered initial data fits the input info
        m = data.magnitude
        if isinstance(ii.grid, fm.NoGrid):
            okshape = m.ndim == ii.grid.dim + 1
        else:
            okshape = tuple(m.shape[1:]) == tuple(ii.grid.data_shape)
        if not okshape:
            ctx.violation("initial-data-shape", f"C{k} initial pull has shape {m.shape} for grid {ii.grid!r}" + info)
            return
        if data.units != ii.units:
            ctx.violation("initial-data-units", f"C{k} initial pull labelled {data.units!s}, info says {ii.units!s}" + info)
            return
        if c["_mask"] == "NONE" and np.ma.is_masked(m):
            ctx.violation("mask-requirement", f"C{k} requires unmasked data but received masked values" + info)
            return
        if c["_mask"] in ("fixed", "other") and ada != "grid2val":
            _g, ccfg = grid_of(c["grid"])
            if ccfg == "U":
                continue
            want = np.asarray(mask_of(c["_mask"], ccfg))
            if not np.array_equal(np.ma.getmaskarray(m[0]), want):
                ctx.violation("mask-requirement", f"C{k} fixed mask not satisfied by the delivered data" + info)
                return
    if p["grid"] is None and oinfo.grid is None or p["units"] is None and oinfo.units is None or oinfo.time is None:
        ctx.violation("producer-field-unset-after-connect", f"output info still has an unset field: {oinfo!r}" + info)
        return
    if p["foo"] == "unset":
        vals = [c["foo"] for c in case["cons"] if c["foo"] not in ("absent", "unset")]
        if oinfo.meta.get("foo") not in vals:
            ctx.violation("meta-not-carried-up", f"producer left meta foo open, consumers offer {vals}, output has {oinfo.meta.get('foo')!r}" + info)


# ------------------------------------------------------------------ generator
@st.composite
def grid_spec(draw):
    k = draw(st.sampled_from(["A", "A", "A", "B", "B", "R", "R", "N0", "N0", "N1", "N1", "U", "U", "A2", "a", "a2", "V", "u", "v"]))
    if k in UFAM:
        return [k, draw(st.sampled_from(["CELLS", "POINTS"]))]
    if k == "N0":
        return ["N", 0]
    if k == "N1":
        return ["N", 1]
    g = [k, draw(st.sampled_from(["CELLS", "POINTS"])), draw(st.sampled_from("CF")), draw(st.booleans()), [draw(st.booleans()), draw(st.booleans())]]
    if draw(st.integers(0, 3)) == 0:
        g.append(draw(st.sampled_from(CRS_POOL)))
    return g


# EPSG:4326 and OGC:CRS84 are the same datum with the axes the other way round: the same numbers mean other places
CRS_POOL = ["EPSG:4326", "OGC:CRS84", "EPSG:32633"]


@st.composite
def case_st(draw):
    ada = draw(st.sampled_from([None, None, None, "scale", "sum", "grid2val", "val2grid"]))
    pg = draw(grid_spec())
    if ada == "val2grid":
        pg = ["N", 0]
    if ada == "grid2val" and pg[0] == "N":
        pg = ["A", "CELLS", "F", False, [False, False]]
    grp = draw(st.sampled_from([v for v in hu.by_dimension().values() if len(v) >= 2]))
    pu = draw(st.sampled_from(grp)) if ada != "sum" else draw(st.sampled_from(["m/s", "mm/d", "m", "kg m-2 s-1"]))
    gridded = pg[0] != "N"
    pm = draw(st.sampled_from(["FLEX", "FLEX", "NONE", "fixed", "nomask"])) if gridded else draw(st.sampled_from(["FLEX", "NONE"]))
    prod = {
        "time": draw(st.integers(0, 9)) < 7,
        "grid": pg if (draw(st.integers(0, 9)) < 7 or ada in ("val2grid", "grid2val")) else None,
        "units": pu if draw(st.integers(0, 9)) < 7 else None,
        "mask": pm,
        "foo": draw(st.sampled_from(["absent", "absent", "bar", "unset"])),
        "every_call": draw(st.integers(0, 3)) == 0,
    }
    if prod["grid"] is None and pm not in ("FLEX", "NONE"):
        prod["mask"] = "FLEX"
    out_units = {"m/s": "m", "mm/d": "mm", "m": "m s", "kg m-2 s-1": "kg m-2"}.get(pu, pu) if ada == "sum" else pu
    cons = []
    for _ in range(draw(st.sampled_from([1, 1, 2, 3]))):
        # grid
        r = draw(st.integers(0, 19))
        base_g = pg if ada not in ("grid2val", "val2grid") else (["N", 0] if ada == "grid2val" else ["A", "CELLS", "F", False, [False, False]])
        if ada == "val2grid":
            cg = draw(grid_spec())
            if cg[0] == "N":
                cg = ["A", "POINTS", "C", True, [True, False]]
        elif r < 7:
            cg = base_g
        elif r < 10 and ada != "val2grid":
            cg = None
        elif r < 16 and base_g[0] != "N" and base_g[0] not in UFAM:
            cg = [base_g[0], base_g[1], draw(st.sampled_from("CF")), draw(st.booleans()), [draw(st.booleans()), draw(st.booleans())]] + list(base_g[5:])
            if len(base_g) > 5 and draw(st.booleans()):
                cg[5] = draw(st.sampled_from([c for c in CRS_POOL if c != base_g[5]]))  # same numbers, other reference system
        elif r < 16 and base_g[0] in UFAM:
            cg = [base_g[0], draw(st.sampled_from(["CELLS", "POINTS"]))]
        elif r < 18 and base_g[0] in SIBLING:
            cg = [SIBLING[base_g[0]]] + list(base_g[1:])  # same layout, displaced locations (also at micrometre scale)
        else:
            cg = draw(grid_spec())
        # units
        r = draw(st.integers(0, 19))
        if r < 7:
            cu = out_units
        elif r < 10:
            cu = None
        elif r < 16:
            same_dim = [u for u in hu.NAMES if hu.compatible(u, out_units)]
            cu = draw(st.sampled_from(same_dim)) if same_dim else None
        else:
            cu = draw(st.sampled_from(hu.NAMES))
        eff = cg if cg is not None else pg
        cgridded = eff[0] != "N"
        cm = draw(st.sampled_from(["FLEX", "FLEX", "FLEX", prod["mask"], "NONE", "fixed", "other", "nomask"]))
        if not cgridded and cm not in ("FLEX", "NONE"):
            cm = "FLEX"
        if cg is None and cm not in ("FLEX", "NONE"):
            cm = "FLEX"
        cons.append({"time": draw(st.integers(0, 9)) < 7, "grid": cg, "units": cu, "mask": cm,
                     "foo": draw(st.sampled_from(["absent", "absent", "bar", "baz", "unset"])),
                     "late": draw(st.sampled_from([0, 0, 1, 2]))})  # n = info handed over in the n-th _connect call
    return {"prod": prod, "cons": cons, "adapter": ada, "order": draw(st.lists(st.integers(0, 3), min_size=4, max_size=4)),
            "prehistory": draw(st.integers(0, 3)) == 0}


def enum_crs(tier):
    """every (geometry, location, producer CRS, consumer CRS, consumer layout, adapter, listing order): the link is
    accepted iff the reference systems are the same value - the rest of the case is conflict-free"""
    pool = [None] + CRS_POOL
    for k in ("A", "R"):
        for loc in ("CELLS", "POINTS"):
            for pc in pool:
                for cc in pool:
                    for lay in (["C", False, [False, False]], ["F", True, [True, False]]):
                        for ada in (None, "scale"):
                            for order in ([0, 1], [1, 0]):
                                pg = [k, loc, "C", False, [False, False]] + ([pc] if pc else [])
                                cg = [k, loc] + lay + ([cc] if cc else [])
                                yield {"prod": {"time": True, "grid": pg, "units": "m", "mask": "FLEX", "foo": "absent", "every_call": False},
                                       "cons": [{"time": True, "grid": cg, "units": "m", "mask": "FLEX", "foo": "absent", "late": 0}],
                                       "adapter": ada, "order": order, "prehistory": False}


def parts():
    from . import c06

    return [
        Part("crs_enum", check, enumerate=enum_crs, exhaustive=True),
        Part("compositions", check, strategy=case_st(), budget={"quick": 5000, "thorough": 120000}, fuzz={"thorough": 10000}),
        # metadata derived by transfer-rule lists (input-to-output, output-to-input, values): after connect both ends of
        # every link carry exactly what their declarations / rules give and the initial pulls are converted accordingly
        # (check shared with C06, whose statement covers the rules' dependencies)
        Part("rule_lists", c06.check_rules, strategy=c06.rules_case(), budget={"quick": 600, "thorough": 15000}),
    ]
