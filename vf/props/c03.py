"""C03 - a run terminates, reaches the end time, and walks each life cycle once."""
from hypothesis import strategies as st

from .. import h_sched as S
from .. import h_sched_gen as G
from ..runner import Part

PROP = "C03"
RULE = (
    "real compositions (DAGs with pull-based components, delay-resolved rings - a ring whose delays suffice must run, "
    "a circular-coupling error is excused only without or with insufficient delay -, adapter chains of every kind, "
    "start offsets, varying steps, all listing orders) with the end time drawn on a step-grid point of some "
    "component, between grid points, equal to the composition start, before the start of a late component, or "
    "beyond everything. Whole-history oracle: run returns within the deterministic update bound; every "
    "time component ends at >= end; per-component times strictly increase and chain (each update starts at "
    "the previous next_time); for end > start no update with all time components already >= end; callback log "
    "of every harness component == initialize connect+ validate update* finalize; final status FINALIZED; "
    "every adapter instance finalized exactly once; pull-based components never updated. non-trivial = >=3 "
    "components and (end off every component's step grid, or a component starting at/after end, or a "
    "component overshooting end by more than another one's step). Part long_chains: one dependency path of 6-12 "
    "components (some pull-based) listed sink-first / source-first / interleaved / at random. distinct = "
    "canonical JSON of the spec."
)
ASSUMPTIONS = [
    "'or finished': Component.update overwrites a FINISHED status set inside _update with UPDATED, so a finished component keeps being scheduled; a fifth of the specs contain a model that reports FINISHED from some update on - the run must complete as usual",
    "termination is decided by deterministic counters (update bound derived from the spec), not by wall clock",
]


def grid_points(c, upto):
    t, k, pts = c["start"], 0, []
    while t <= upto:
        pts.append(t)
        t += c["steps"][k % len(c["steps"])]
        k += 1
    return pts


@st.composite
def spec_st(draw, deep=False, chains=False):
    if chains:
        spec = draw(G.chain_spec(max_n=18))
    elif deep:
        spec = draw(st.one_of(G.dag_spec(), G.dag_spec(max_models=7, max_chain=4), G.ring_spec(modes=["suff", "suff_split", "suff_multi", "dpush"], max_n=7)))
    else:
        spec = draw(st.one_of(G.dag_spec(), G.dag_spec(), G.ring_spec(modes=["suff", "suff_split", "suff_multi", "dpush"])))
    models = [c for c in spec["comps"] if c["kind"] == "model"]
    mode = draw(st.sampled_from(["grid", "off", "start", "late", "free", "free"]))
    start = min(c["start"] for c in models)
    if mode == "grid":
        c = draw(st.sampled_from(models))
        spec["end"] = draw(st.sampled_from(grid_points(c, 40)))
    elif mode == "start":
        spec["end"] = start
    elif mode == "late":
        spec["end"] = draw(st.integers(start, max(c["start"] for c in models) + 1))
    elif mode == "off":
        spec["end"] = draw(st.integers(1, 40))
    spec["end_mode"] = mode
    # a component may report FINISHED from one of its updates (documented status protocol): the run still has to
    # return normally with the life cycles complete
    if draw(st.integers(0, 4)) == 0:
        c = draw(st.sampled_from(models))
        c["finish_after"] = draw(st.integers(1, 6))
        spec["excluded"] = list(spec.get("excluded", [])) + ["info:component-reports-finished"]
    return spec


def check(spec, ctx):
    outcome, msg, trace, b = S.run(spec)
    models = [c for c in spec["comps"] if c["kind"] == "model"]
    end = spec["end"]
    ctx.event(f"end_mode={spec.get('end_mode')}")
    ctx.event(f"outcome={outcome}")
    for e in spec.get("excluded", []):
        ctx.event("excluded:" + e)
    if outcome == "HarnessBound":
        ctx.violation("unbounded-run", msg)
        return
    if outcome != "ok":
        # a ring without (or with an insufficient) delay need not run; one whose delays suffice is a valid composition
        if outcome in ("FinamCircularCouplingError",) and spec.get("mode") in ("none", "partial"):
            ctx.event("ring-not-run")
            return
        ctx.violation(f"run-fails:{outcome}", f"valid composition did not run: {msg} | links {spec['links']} end {end}")
        return
    off_grid = all(end not in grid_points(c, end) for c in models)
    late = any(c["start"] >= end for c in models)
    finals = {c["name"]: b.comps[c["name"]].time for c in models}
    from .. import h_slot as hs

    with S.tick_of(spec):
        over = [hs.mins(t) - end for t in finals.values()]
    overshoot = len(models) >= 2 and max(over) > min(min(c["steps"]) for c in models)
    ctx.nontrivial(len(spec["comps"]) >= 3 and (off_grid or late or overshoot))
    if late:
        ctx.event("component-starts-at-or-after-end")
    for tag, m in S.lifecycle(spec, trace, b, outcome):
        ctx.violation(tag, m + f" | end {end} order {spec['order']}")
        return


def parts():
    return [
        Part("compositions", check, strategy=spec_st(), strategy_thorough=spec_st(deep=True), budget={"quick": 1400, "thorough": 80000}, fuzz={"thorough": 6000}),
        Part("long_chains", check, strategy=spec_st(chains=True), budget={"quick": 200, "thorough": 8000}, shrink_budget=150),
    ]
