"""C06 - the iterative connect converges or reports exactly the stuck components."""
import itertools
import re
from datetime import timedelta

import numpy as np
from hypothesis import strategies as st

from .. import h_sched as S
from .. import h_slot as hs
from ..runner import Part

PROP = "C06"
RULE = (
    "[part rule_lists: P(a,b) -> X(A,B;o) -> C(i) with units m/km/mm/cm and an extra key; X.o derived from X's inputs, or "
    "X.A's request derived from X.o, by rule lists of 1-3 rules (full transfer, field transfer, values); every slot must end "
    "with exactly the metadata its declaration / rule list gives and every initial pull with the producer's value in the "
    "pulling input's units] "
    "shapes: 2-4 time components with start offsets; per input: info given at init | provided later through "
    "exchange_infos | FromOutput rule | provided after another input's info arrived, pulled initially or not; "
    "per output: info at init | later | FromInput rule | after an input's info, data available immediately or "
    "only after all initial pulls or after one particular initial pull; arbitrary wiring (self loops, cycles), static outputs and inputs, all listing/link orders; "
    "a quarter of the used outputs reach all their consumers through ONE shared pass-through adapter (branching behind an adapter); components "
    "feed infos/data stepwise over repeated connect calls as the connect-phase documentation describes. "
    "Oracle = least fixpoint of the documented protocol over the items OP/IE/OE/DPU/DP: all complete => "
    "connect() succeeds with every component VALIDATED, all infos exchanged, in_data == producer's initial "
    "value, outputs hold publications for the composition start and the producer's own start; otherwise "
    "FinamCircularCouplingError listing exactly the complement; per connect call status CONNECTING iff "
    "something new was exchanged, CONNECTING_IDLE iff nothing, CONNECTED iff complete; call counter bound. "
    "non-trivial = >=3 connect iterations of some component, or a stall with a non-empty connected remainder, "
    "or start offsets. offset_delay_enum: acyclic two-component compositions with producer start offset x "
    "delay adapter up/downstream of a push-based adapter (known finding F10). distinct = canonical JSON."
)
ASSUMPTIONS = [
    "harness components provide infos/data stepwise exactly as documented (try_connect with exchange_infos / push_infos / push_data)",
    "infos are fully specified and compatible (metadata conflicts are C07)",
]

_CLS = None


def _cls():
    global _CLS  # pylint: disable=global-statement
    if _CLS is not None:
        return _CLS
    import finam as fm

    def mkinfo(t=None):
        return fm.Info(time=t, grid=fm.NoGrid(), units="m")

    class CC(fm.TimeComponent):
        def __init__(self, spec, idx, log, bound):
            super().__init__()
            self._name = spec["name"]
            self.spec, self.idx, self.log, self.bound = spec, idx, log, bound
            self._time = hs.tm(spec["start"])
            self.calls = 0

        def _next_time(self):
            return self.time + timedelta(minutes=1)

        def value(self, oname):
            return 100.0 * (self.idx + 1) + float(oname[1:])

        def _initialize(self):
            in_rules, out_rules = {}, {}
            for i in self.spec["ins"]:
                if i["info"] == "init":
                    self.inputs.add(name=i["name"], info=mkinfo(self.time), static=bool(i.get("static")))
                else:
                    self.inputs.add(name=i["name"], static=bool(i.get("static")))
                if i["info"].startswith("rule_out:"):
                    in_rules[i["name"]] = [fm.tools.FromOutput(i["info"].split(":")[1])]
            for o in self.spec["outs"]:
                if o["info"] == "init":
                    self.outputs.add(name=o["name"], info=mkinfo(self.time), static=bool(o.get("static")))
                else:
                    self.outputs.add(name=o["name"], static=bool(o.get("static")))
                if o["info"].startswith("rule_in:"):
                    out_rules[o["name"]] = [fm.tools.FromInput(o["info"].split(":")[1])]
            self.create_connector(
                pull_data=[i["name"] for i in self.spec["ins"] if i["pull"]],
                in_info_rules=in_rules,
                out_info_rules=out_rules,
            )

        def snap(self):
            c = self.connector
            return (
                tuple(v is not None for v in c.in_infos.values()),
                tuple(v is not None for v in c.out_infos.values()),
                tuple(v is not None for v in c.in_data.values()),
                tuple(c.infos_pushed.values()),
                tuple(c.data_pushed.values()),
            )

        def _connect(self, start_time):
            self.calls += 1
            if self.calls > self.bound:
                raise S.HarnessBound(f"{self.name}: connect called {self.calls} times (bound {self.bound})")
            c = self.connector
            ex, pi, pd = {}, {}, {}
            for i in self.spec["ins"]:
                m = i["info"]
                if m == "later" or (m.startswith("after_in:") and c.in_infos[m.split(":")[1]] is not None):
                    ex[i["name"]] = mkinfo(self.time)
            for o in self.spec["outs"]:
                m = o["info"]
                if m == "later" or (m.startswith("after_in:") and c.in_infos[m.split(":")[1]] is not None):
                    pi[o["name"]] = mkinfo(self.time)
                d = o["data"]
                if d == "now" or (d == "after_pull" and c.all_data_pulled) or (
                    d.startswith("after_data:") and c.in_data.get(d.split(":")[1]) is not None
                ):
                    pd[o["name"]] = self.value(o["name"])
            before = self.snap()
            self.try_connect(start_time, exchange_infos=ex, push_infos=pi, push_data=pd)
            after = self.snap()
            self.log.append((self.name, before != after, self.status.name, all(all(x) for x in after)))

        def _validate(self):
            pass

        def _update(self):
            self._time = self.next_time

        def _finalize(self):
            pass

    _CLS = CC
    return CC


def fixpoint(spec):
    src, tg = {}, {}
    for a, ao, b, bi in spec["links"]:
        src[(b, bi)] = (a, ao)
        tg.setdefault((a, ao), []).append((b, bi))
    IE, OP, OE, DPU, DP = set(), set(), set(), set(), set()
    changed = True
    while changed:
        changed = False

        def add(Sx, x):
            nonlocal changed
            if x not in Sx:
                Sx.add(x)
                changed = True

        for c in spec["comps"]:
            n = c["name"]
            for o in c["outs"]:
                m, k = o["info"], (n, o["name"])
                if m in ("init", "later") or (m[:8] in ("rule_in:", "after_in") and (n, m.split(":")[1]) in IE):
                    add(OP, k)
                if k in OP and all(t in IE for t in tg.get(k, [])):
                    add(OE, k)
                if o["data"].startswith("after_data:"):
                    avail = (n, o["data"].split(":")[1]) in DP
                else:
                    avail = o["data"] == "now" or all((n, i["name"]) in DP for i in c["ins"] if i["pull"])
                if avail and k in OE:
                    add(DPU, k)
            for i in c["ins"]:
                m, k = i["info"], (n, i["name"])
                offer = (
                    m in ("init", "later")
                    or (m.startswith("rule_out:") and (n, m.split(":")[1]) in OE)
                    or (m.startswith("after_in:") and (n, m.split(":")[1]) in IE)
                )
                if offer and src[k] in OP:
                    add(IE, k)
                if i["pull"] and k in IE and src[k] in DPU:
                    add(DP, k)
    done = set()
    for c in spec["comps"]:
        n = c["name"]
        if (
            all((n, i["name"]) in IE for i in c["ins"])
            and all((n, i["name"]) in DP for i in c["ins"] if i["pull"])
            and all((n, o["name"]) in OE and (n, o["name"]) in DPU for o in c["outs"])
        ):
            done.add(n)
    return done


def check(spec, ctx):
    import finam as fm

    CC = _cls()
    log = []
    nitems = sum(2 * len(c["ins"]) + 3 * len(c["outs"]) for c in spec["comps"])
    bound = nitems + 3
    cs = {c["name"]: CC(c, k, log, bound) for k, c in enumerate(spec["comps"])}
    comp = fm.Composition([cs[n] for n in spec["order"]], print_log=False)
    hubs = {}  # outputs whose consumers all hang behind ONE shared pull-based pass-through adapter (branching behind it)
    for a, ao, b, bi in spec["links"]:
        if [a, ao] in spec.get("hubs", []):
            if (a, ao) not in hubs:
                hubs[(a, ao)] = fm.adapters.Scale(1.0)
                cs[a].outputs[ao] >> hubs[(a, ao)]
            hubs[(a, ao)] >> cs[b].inputs[bi]
        else:
            cs[a].outputs[ao] >> cs[b].inputs[bi]
    if hubs:
        ctx.event("branching-behind-adapter" if any(sum(1 for l in spec["links"] if (l[0], l[1]) == k) > 1 for k in hubs) else "adapter-on-link")
    exp = fixpoint(spec)
    allc = {c["name"] for c in spec["comps"]}
    t0 = hs.tm(min(c["start"] for c in spec["comps"]))
    info = f" | spec {spec}"
    try:
        comp.connect(t0)
        got = ("ok", frozenset())
    except fm.FinamCircularCouplingError as e:
        m = re.search(r"\[(.*)\]", str(e))
        got = ("circ", frozenset(x.strip() for x in m.group(1).split(",") if x.strip()) if m else frozenset())
    except S.HarnessBound as e:
        ctx.violation("connect-does-not-terminate", str(e) + info)
        return
    except (fm.FinamTimeError, fm.FinamNoDataError, fm.FinamMetaDataError, fm.FinamDataError, fm.FinamStatusError) as e:
        ctx.violation(f"connect-fails:{type(e).__name__}", f"{str(e)[:200]}" + info)
        return
    want = ("ok", frozenset()) if exp == allc else ("circ", frozenset(allc - exp))
    ctx.event(f"expected={want[0]}:{len(want[1])}stuck")
    iters = max(c.calls for c in cs.values())
    if spec.get("shared_names"):
        ctx.event("inputs-and-outputs-share-names")
    offsets = len({c["start"] for c in spec["comps"]}) > 1
    ctx.nontrivial(iters >= 3 or (want[0] == "circ" and exp) or offsets)
    if offsets:
        ctx.event("start-offsets")
    ctx.event(f"max-connect-calls={min(iters, 6)}")
    if got != want:
        if want[0] == "ok":
            ctx.violation("acyclic-reported-circular", f"fixpoint completes everything but connect() raised circular coupling for {sorted(got[1])}" + info)
        elif got[0] == "ok":
            ctx.violation("stuck-not-reported", f"connect() succeeded although {sorted(want[1])} cannot complete" + info)
        else:
            ctx.violation("wrong-stuck-list", f"error lists {sorted(got[1])}, exactly {sorted(want[1])} cannot complete" + info)
        return
    # per-call progress / status
    for name, changed, status, complete in log:
        if status == "CONNECTED" and not complete:
            ctx.violation("connected-with-outstanding-exchange", f"{name} reported CONNECTED while an exchange is outstanding" + info)
            return
        if complete and status != "CONNECTED":
            ctx.violation("complete-not-connected", f"{name} completed all exchanges but reports {status}" + info)
            return
        if status == "CONNECTING_IDLE" and changed:
            ctx.violation("idle-despite-progress", f"{name} exchanged something new but reports CONNECTING_IDLE" + info)
            return
        if status == "CONNECTING" and not changed:
            ctx.violation("progress-without-exchange", f"{name} reports CONNECTING although nothing new was exchanged" + info)
            return
    if got[0] != "ok":
        return
    src = {(b, bi): (a, ao) for a, ao, b, bi in spec["links"]}
    for c in spec["comps"]:
        comp_ = cs[c["name"]]
        if comp_.status != fm.ComponentStatus.VALIDATED:
            ctx.violation("not-validated", f"{c['name']} is {comp_.status.name} after connect" + info)
            return
        con = comp_.connector
        if any(v is None for v in con.in_infos.values()) or any(v is None for v in con.out_infos.values()):
            ctx.violation("info-not-exchanged", f"{c['name']}: in_infos/out_infos incomplete after connect" + info)
            return
        for i in c["ins"]:
            if i["pull"]:
                a, ao = src[(c["name"], i["name"])]
                v = con.in_data[i["name"]]
                if v is None or abs(float(np.asarray(v.magnitude).ravel()[0]) - cs[a].value(ao)) > 1e-12:
                    ctx.violation("initial-pull-value", f"{c['name']}.{i['name']} initial pull {v}, producer's initial value {cs[a].value(ao)}" + info)
                    return
        for o in c["outs"]:
            out = comp_.outputs[o["name"]]
            if not out.has_targets:
                continue
            times = [hs.mins(t) for t, _d in out.data]
            wantt = [None] if o.get("static") else sorted({hs.mins(t0), c["start"]})
            if times != wantt:
                ctx.violation("initial-publications", f"{c['name']}.{o['name']} holds publications for {times}, expected {wantt} (composition start and own start)" + info)
                return


@st.composite
def shape(draw):
    n = draw(st.integers(2, 4))
    names = [f"K{i}" for i in range(n)]
    comps = [{"name": m, "start": draw(st.sampled_from([0, 0, 3])), "ins": [], "outs": []} for m in names]
    for c in comps:
        for j in range(draw(st.integers(0, 2))):
            c["outs"].append({"name": f"o{j}", "info": "init", "data": draw(st.sampled_from(["now", "now", "after_pull"])),
                              "static": draw(st.integers(0, 5)) == 0})
    outs = [(c["name"], o["name"]) for c in comps for o in c["outs"]]
    links = []
    for c in comps:
        for j in range(draw(st.integers(0, 2))):
            if not outs:
                break
            c["ins"].append({"name": f"i{j}", "info": "init", "pull": draw(st.integers(0, 9)) < 7})
            a = draw(st.sampled_from(outs))
            links.append([a[0], a[1], c["name"], f"i{j}"])
            src_static = next(o for cc in comps if cc["name"] == a[0] for o in cc["outs"] if o["name"] == a[1]).get("static")
            if src_static and draw(st.booleans()):
                c["ins"][-1]["static"] = True  # a static input needs a static source (else validation rejects, C19)
    for c in comps:
        for i in c["ins"]:
            r = draw(st.integers(0, 19))
            if r < 3:
                i["info"] = "later"
            elif r < 6 and c["outs"]:
                i["info"] = "rule_out:" + draw(st.sampled_from(c["outs"]))["name"]
            elif r < 8 and len(c["ins"]) > 1:
                o = draw(st.sampled_from([x for x in c["ins"] if x is not i]))
                i["info"] = "after_in:" + o["name"]
        pulled = [i["name"] for i in c["ins"] if i["pull"]]
        for o in c["outs"]:
            if pulled and draw(st.integers(0, 4)) == 0:
                o["data"] = "after_data:" + draw(st.sampled_from(pulled))
            r = draw(st.integers(0, 19))
            if r < 3:
                o["info"] = "later"
            elif r < 7 and c["ins"]:
                o["info"] = "rule_in:" + draw(st.sampled_from(c["ins"]))["name"]
            elif r < 9 and c["ins"]:
                o["info"] = "after_in:" + draw(st.sampled_from(c["ins"]))["name"]
    spec = {"comps": comps, "links": list(draw(st.permutations(links))), "order": list(draw(st.permutations(names)))}
    used = sorted({(l[0], l[1]) for l in links})
    hubs = [list(k) for k in used if draw(st.integers(0, 3)) == 0]
    if hubs:
        spec["hubs"] = hubs
    if draw(st.integers(0, 2)) == 0:
        spec = _shared_names(spec)
    return spec


def _shared_names(spec):
    """inputs and outputs are separate name spaces: input k and output k of every component get the same name s<k>"""
    ren = lambda x: "s" + x[1:]  # noqa: E731

    def ref(m):
        return m.split(":")[0] + ":" + ren(m.split(":")[1]) if ":" in m else m

    comps = []
    for c in spec["comps"]:
        comps.append(dict(c, ins=[dict(i, name=ren(i["name"]), info=ref(i["info"])) for i in c["ins"]],
                          outs=[dict(o, name=ren(o["name"]), info=ref(o["info"]), data=ref(o["data"])) for o in c["outs"]]))
    out = {"comps": comps, "links": [[a, ren(ao), b, ren(bi)] for a, ao, b, bi in spec["links"]], "order": spec["order"], "shared_names": True}
    if spec.get("hubs"):
        out["hubs"] = [[a, ren(ao)] for a, ao in spec["hubs"]]
    return out


@st.composite
def long_chain(draw):
    """long acyclic chains: every hop needs its own connect sweeps when infos/data travel against the list order"""
    n = draw(st.integers(8, 45))
    mode = draw(st.sampled_from(["data", "info-down", "info-up"]))
    comps, links = [], []
    for k in range(n):
        c = {"name": f"K{k}", "start": 0, "ins": [], "outs": []}
        if k > 0:
            c["ins"].append({"name": "i0", "info": "init", "pull": True})
            links.append([f"K{k - 1}", "o0", f"K{k}", "i0"])
        if k < n - 1:
            c["outs"].append({"name": "o0", "info": "init", "data": "now" if k == 0 else "after_pull"})
            if k > 0 and mode == "info-down":
                c["outs"][0]["info"] = "rule_in:i0"  # metadata handed downstream hop by hop
            if k > 0 and mode == "info-up":
                c["ins"][0]["info"] = "rule_out:o0"  # metadata handed upstream hop by hop (fixed by the sink)
        comps.append(c)
    names = [c["name"] for c in comps]
    order = draw(st.sampled_from(["forward", "reversed", "shuffled"]))
    if order == "reversed":
        names = names[::-1]
    elif order == "shuffled":
        names = list(draw(st.permutations(names)))
    return {"comps": comps, "links": links, "order": names, "chain": [n, mode, order]}


# ------------------------------------------------------------------ start offset x delay x push-based (F10)
def enum_offset_delay(tier):
    chains = [
        [["dfix", 2], ["lin"]], [["dfix", 0], ["prev"]], [["dpull", 1, 0], ["lin"]], [["dpush"], ["next"]],
        [["lin"], ["dfix", 2]], [["dfix", 2]], [["lin"]], [["scale", 1.0], ["dfix", 1], ["step", 0.5]],
        [["dfix", 1], ["avg", None]], [["dfix", 1], ["sum", 0.0, True]],
    ]
    for chain, pstart, order in itertools.product(chains, (0, 2), (["P", "C"], ["C", "P"])):
        yield {
            "comps": [
                {"kind": "model", "name": "P", "start": pstart, "steps": [1], "ins": [], "outs": ["o"]},
                {"kind": "model", "name": "C", "start": 0, "steps": [2], "ins": ["i0"], "outs": []},
            ],
            "links": [["P", "o", chain, "C", "i0"]],
            "order": order,
            "end": 8,
        }


def check_offset_delay(spec, ctx):
    outcome, msg, trace, _b = S.run(spec)
    chain = spec["links"][0][2]
    names = [a[0] for a in chain]
    last_push = max((i for i, n in enumerate(names) if n in hs.PUSH_BASED), default=-1)
    delay_up = any(n in hs.DELAYS for n in names[: last_push + 1])
    offset = spec["comps"][0]["start"] != 0
    ctx.event(f"offset={offset}:delay-upstream-of-push-based={delay_up}")
    ctx.nontrivial(offset and bool(chain))
    started = any(e[0] == "update" for e in trace)
    if outcome != "ok":
        where = "run" if started else "connect"
        if offset and delay_up and not started:
            ctx.violation("connect-fails-offset-delay-upstream-of-push-based", f"{outcome}: {(msg or '')[:200]} | chain {chain} order {spec['order']}")
        else:
            ctx.violation(f"acyclic-{where}-fails:{outcome}", f"{(msg or '')[:200]} | chain {chain} producer start {spec['comps'][0]['start']} order {spec['order']}")


# ------------------------------------------------------------------ contents of rule-derived metadata
LEN_UNITS = ["m", "km", "mm", "cm"]
_RC = None


def _rc_class():
    global _RC  # pylint: disable=global-statement
    if _RC:
        return _RC
    import finam as fm

    def rule(r):
        if r[0] == "in":
            return fm.tools.FromInput(r[1], r[2] or None)
        if r[0] == "out":
            return fm.tools.FromOutput(r[1], r[2] or None)
        return fm.tools.FromValue(r[1], r[2])

    class RC(fm.TimeComponent):
        """ins: {name: {"units": u|None, "foo": v|None} | {"rules": [...]}}, outs: {name: {"units", "foo", "value"} | {"rules", "value"}}"""

        def __init__(self, name, ins, outs):
            super().__init__()
            self._name = name
            self.ins, self.outs = ins, outs
            self._time = hs.T0
            self.calls = 0

        def _next_time(self):
            return self.time + timedelta(minutes=1)

        def _initialize(self):
            ir, orl = {}, {}
            for n, d in self.ins.items():
                if "rules" in d:
                    self.inputs.add(name=n)
                    ir[n] = [rule(r) for r in d["rules"]]
                else:
                    meta = {"foo": d["foo"]} if d.get("foo") is not None else {}
                    self.inputs.add(name=n, time=self.time, grid=fm.NoGrid(), units=d["units"], **meta)
            for n, d in self.outs.items():
                if "rules" in d:
                    self.outputs.add(name=n)
                    orl[n] = [rule(r) for r in d["rules"]]
                else:
                    meta = {"foo": d["foo"]} if d.get("foo") is not None else {}
                    self.outputs.add(name=n, time=self.time, grid=fm.NoGrid(), units=d["units"], **meta)
            self.create_connector(pull_data=list(self.ins), in_info_rules=ir, out_info_rules=orl)

        def _connect(self, start_time):
            self.calls += 1
            if self.calls > 40:
                raise S.HarnessBound(f"{self.name}: connect called {self.calls} times")
            self.try_connect(start_time, push_data={n: d["value"] for n, d in self.outs.items()})

        def _validate(self):
            pass

        def _update(self):
            self._time = self.next_time

        def _finalize(self):
            pass

    _RC = RC
    return RC


def _apply(rules, in_infos, out_infos):
    """reference for a rule list: dict(units=..., foo=...) built rule by rule from *copies* of the sources"""
    info = {"units": None, "foo": None}
    for r in rules:
        if r[0] in ("in", "out"):
            src = (in_infos if r[0] == "in" else out_infos)[r[1]]
            if not r[2]:
                info = dict(src)
            else:
                for fld in r[2]:
                    if fld in ("units", "foo"):
                        info[fld] = src[fld]
        elif r[1] in ("units", "foo"):
            info[r[1]] = r[2]
    return info


def check_rules(case, ctx):
    """P(a, b) -> X(A, B; o) -> C(i). Either X.o's info is derived from X's inputs by a rule list (mode out), or X.A's
    request is derived from X.o's info (mode in). After connect every slot must carry exactly the metadata its own
    declaration / rule list gives - deriving one slot's info must never alter another slot's exchanged info - and every
    initial pull must deliver the producer's initial value in the units of the pulling input."""
    import finam as fm

    from .. import h_units as hu

    RC = _rc_class()
    p_outs = {k: {"units": case["p"][k]["units"], "foo": case["p"][k]["foo"], "value": v} for k, v in (("a", 1500.0), ("b", 7.0))}
    x_ins = {"A": dict(case["x"]["A"]), "B": dict(case["x"]["B"])}
    x_outs = {"o": dict(case["x"]["o"], value=42.0)}
    c_ins = {"i": dict(case["c"])}
    P, X, C = RC("P", {}, p_outs), RC("X", x_ins, x_outs), RC("C", c_ins, {})
    comps = {"P": P, "X": X, "C": C}
    comp = fm.Composition([comps[n] for n in case["order"]], print_log=False)
    P.outputs["a"] >> X.inputs["A"]
    P.outputs["b"] >> X.inputs["B"]
    X.outputs["o"] >> C.inputs["i"]
    nrules = max(len(d.get("rules", [])) for d in list(x_ins.values()) + list(x_outs.values()))
    ctx.nontrivial(nrules >= 2)
    ctx.event(f"mode={case['mode']}:rules={nrules}")
    info = f" | case {case}"
    try:
        comp.connect(hs.T0)
    except S.HarnessBound as e:
        ctx.violation("connect-does-not-terminate", str(e) + info)
        return
    except fm.FinamCircularCouplingError as e:
        ctx.violation("acyclic-reported-circular", f"{str(e)[:160]}" + info)
        return
    # ---- reference
    def merged(req, src):  # request fields that are set win, the rest comes from the source
        return {k: (req.get(k) if req.get(k) is not None else src.get(k)) for k in ("units", "foo")}

    pa, pb = ({"units": p_outs[k]["units"], "foo": p_outs[k]["foo"]} for k in ("a", "b"))
    if case["mode"] == "out":
        eA, eB = merged(x_ins["A"], pa), merged(x_ins["B"], pb)
        eo = _apply(x_outs["o"]["rules"], {"A": eA, "B": eB}, {})
    else:
        eo = {"units": x_outs["o"]["units"], "foo": x_outs["o"].get("foo")}
        reqA = _apply(x_ins["A"]["rules"], {}, {"o": eo})
        eA, eB = merged(reqA, pa), merged(x_ins["B"], pb)
    ei = merged(c_ins["i"], eo)
    U = lambda u: fm.UNITS.Unit(u)  # noqa: E731
    slots = [("X.A", X.inputs["A"].info, eA), ("X.B", X.inputs["B"].info, eB), ("X.o", X.outputs["o"].info, eo), ("C.i", C.inputs["i"].info, ei),
             ("P.a", P.outputs["a"].info, pa), ("P.b", P.outputs["b"].info, pb),
             ("X.connector.in_infos[A]", X.connector.in_infos["A"], eA), ("X.connector.in_infos[B]", X.connector.in_infos["B"], eB)]
    for name, got, exp in slots:
        if got.units != U(exp["units"]) or got.meta.get("foo") != exp["foo"] or type(got.meta.get("foo")) is not type(exp["foo"]):
            ctx.violation("rule-derived-metadata", f"{name}: units {got.units!s} foo {got.meta.get('foo')!r}, expected {exp['units']!r} / {exp['foo']!r}" + info)
            return
    pulls = [("X.A", X.connector.in_data["A"], 1500.0, pa["units"], eA["units"]), ("X.B", X.connector.in_data["B"], 7.0, pb["units"], eB["units"]),
             ("C.i", C.connector.in_data["i"], 42.0, eo["units"], ei["units"])]
    for name, got, v, u0, u1 in pulls:
        want = v if hu.equivalent(u0, u1) else float(hu.convert(np.array([v]), u0, u1)[0])
        g = float(np.asarray(got.magnitude).ravel()[0])
        if got.units != U(u1) or abs(g - want) > 1e-9 * abs(want):
            ctx.violation("initial-pull-value", f"{name}: initial pull {g} {got.units!s}, the producer's initial value is {v} {u0} = {want} {u1}" + info)
            return


@st.composite
def rules_case(draw):
    un = st.sampled_from(LEN_UNITS)
    foo = st.sampled_from([None, "x", "y", 0, 0.0, False, ""])  # also falsy values: they are values, not "unset"
    # the extra key is set on producers and by value rules only (equal keys with different values on both ends of a
    # link are a metadata conflict, which is C07's subject)
    slot = lambda: {"units": draw(st.one_of(st.none(), un)), "foo": None}  # noqa: E731
    mode = draw(st.sampled_from(["out", "out", "in"]))
    p = {"a": {"units": draw(un), "foo": draw(foo) if mode == "out" else None}, "b": {"units": draw(un), "foo": draw(foo)}}
    tail = draw(st.lists(st.one_of(
        st.tuples(st.just("val"), st.just("units"), un).map(list),
        st.tuples(st.just("val"), st.just("foo"), st.sampled_from(["x", "z", 0, False])).map(list),
        st.just(["in" if mode == "out" else "out", "B" if mode == "out" else "o", ["units"]]),
    ), max_size=2))
    if mode == "out":
        first = ["in", draw(st.sampled_from(["A", "B"])), []]
        x = {"A": slot(), "B": slot(), "o": {"rules": [first] + tail}}
        c = slot()
    else:
        x = {"A": {"rules": [["out", "o", []]] + tail}, "B": slot(), "o": {"units": draw(un), "foo": draw(foo)}}
        c = slot()
    return {"mode": mode, "p": p, "x": x, "c": c, "order": list(draw(st.permutations(["P", "X", "C"])))}


def parts():
    return [
        Part("shapes", check, strategy=shape(), budget={"quick": 2500, "thorough": 120000}, fuzz={"thorough": 20000}),
        Part("long_chains", check, strategy=long_chain(), budget={"quick": 60, "thorough": 1500}),
        Part("offset_delay_enum", check_offset_delay, enumerate=enum_offset_delay, exhaustive=True),
        Part("rule_lists", check_rules, strategy=rules_case(), budget={"quick": 800, "thorough": 20000}),
    ]
