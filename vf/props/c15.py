"""C15 - canonical form and conversion between compatible grids preserve located values."""
import itertools

import numpy as np
from hypothesis import strategies as st

from .. import h_grid as hg
from .. import h_slot as hs
from ..runner import Part

PROP = "C15"
RULE = (
    "canon: every layout of a geometry (flags enumerated completely per size template; also Hypothesis-drawn) "
    "with data whose values encode their location; pairs/link: ordered pairs of layouts (order, axes_reversed, "
    "axis directions) of the same geometry, enumerated completely per template and location, run through "
    "compatible_with, get_transform_to and a real Output>>Input link (with time axis, optionally masked, "
    "optionally behind a pass-through adapter); compat_gen: pairs of equal / perturbed geometries for the "
    "'exactly when' direction; object_histories: a pool of live grid objects (copies, other layouts) whose data "
    "locations are switched in place, compatible_with / get_transform_to asked repeatedly for the same pairs; "
    "compat_long_enum: axes of 10^3..1.3*10^5 nodes against copies shifted by "
    "0.01..1 cell along the long axis (must be incompatible) or re-laid out (must be compatible). non-trivial = at least 2 non-degenerate axes and the two layouts differ in at "
    "least one flag (canon: one non-default flag). distinct = distinct canonical JSON of the case."
)
ASSUMPTIONS = [
    "reference locations from vf/h_grid.py (constructor arguments only)",
    "values encode locations injectively (x + 100 y + 10000 z on dyadic coordinates), comparisons exact up to 1e-9",
    "masked payloads compared at unmasked cells only, masks compared separately",
]


def field(LOC):
    w = np.array([1.0, 100.0, 10000.0])[: LOC.shape[-1]]
    return (LOC * w).sum(axis=-1)


def maskfn(LOC):
    """a location predicate: masked where the encoded value's integer part is divisible by 3"""
    return (np.floor(field(LOC) * 2).astype(int) % 3) == 0


# ------------------------------------------------------------------ canonical form
def check_canon(cfg, ctx):
    g = hg.build(cfg)
    LOC, shape, _ = hg.ref(cfg)
    dim = LOC.shape[-1]
    nd = hg.n_nondegenerate(cfg)
    ctx.nontrivial(nd >= 2 and hg.nondefault_flags(cfg) >= 1)
    ctx.event(f"dim={dim}")
    x = field(LOC)
    for masked in (False, True):
        data = np.ma.array(x.copy(), mask=maskfn(LOC)) if masked else x.copy()
        can = g.to_canonical(data)
        back = g.from_canonical(can)
        tag = "masked" if masked else "plain"
        if np.shape(back) != shape or not np.array_equal(np.ma.getdata(back), x):
            ctx.violation(f"roundtrip-{tag}", f"from_canonical(to_canonical(x)) != x for {cfg}")
            continue
        if masked and not np.array_equal(np.ma.getmaskarray(back), maskfn(LOC)):
            ctx.violation("roundtrip-mask", "mask changed by canonical round trip")
        # canonical data: x,y,z order along increasing coordinates
        ua = hg.user_axes(cfg)
        loc = hg.flags(cfg)[2]
        per = []
        for a in ua:
            s = np.sort(a)
            per.append(s if (loc == "POINTS" or len(s) == 1) else (s[:-1] + s[1:]) / 2)
        cshape = tuple(len(p) for p in per)
        if np.shape(can) != cshape:
            ctx.violation("canonical-shape", f"canonical shape {np.shape(can)} != {cshape}")
            continue
        CL = np.stack(np.meshgrid(*per, indexing="ij"), axis=-1)
        if not np.array_equal(np.ma.getdata(can), field(CL)):
            ctx.violation(f"canonical-index-{tag}", f"canonical data not indexed in x,y,z order along increasing coordinates for {cfg}")
        if masked and not np.array_equal(np.ma.getmaskarray(can), maskfn(CL)):
            ctx.violation("canonical-mask", "mask not carried to canonical positions")


# ------------------------------------------------------------------ layout pairs
def layouts(dim, lens):
    for order, rev in itertools.product("CF", (False, True)):
        for dec in itertools.product((False, True), repeat=dim):
            if any(d and n == 1 for d, n in zip(dec, lens)):
                continue
            yield order, rev, list(dec)


def base_cfgs(tpl, classes=("rect", "uni")):
    for c in classes:
        for dim in (1, 2, 3):
            lens = tpl[:dim]
            for loc in ("CELLS", "POINTS"):
                if c == "rect":
                    axes = [[float(k) + 0.5 * i * (i + 1) for i in range(n)] for k, n in enumerate(lens)]
                    yield {"cls": "rect", "axes": axes, "order": "F", "rev": False, "loc": loc}, lens
                else:
                    yield {"cls": "uni", "dims": list(lens), "spacing": [1.0, 0.5, 2.0][:dim],
                           "origin": [0.0, -1.0, 2.0][:dim], "inc": [True] * dim, "order": "F",
                           "rev": False, "loc": loc}, lens


PAIR_TEMPLATES = {"quick": [(3, 2, 4), (2, 1, 3)], "thorough": [(3, 2, 4), (2, 3, 2), (2, 1, 3), (4, 4, 1), (1, 3, 2)]}


def enum_pairs(tier):
    for tpl in PAIR_TEMPLATES[tier]:
        for base, lens in base_cfgs(tpl):
            dim = len(lens)
            ls = list(layouts(dim, lens))
            for la, lb in itertools.product(ls, repeat=2):
                a = hg.same_geometry_layout(base, *la)
                b = hg.same_geometry_layout(base, *lb)
                yield {"a": a, "b": b, "masked": "none", "chain": []}
                if len(lens) == 2:
                    yield {"a": a, "b": b, "masked": "none", "chain": [], "static": True}
        # ESRI against every layout of the equivalent uniform grid (cells, 2-D) in both directions
        nc, nr = max(1, tpl[0] - 1), max(1, tpl[1] - 1)
        for eorder in "CF":
            e = {"cls": "esri", "ncols": nc, "nrows": nr, "cellsize": 1.5, "xll": -1.0, "yll": 2.0, "order": eorder}
            ub = {"cls": "uni", "dims": [nc + 1, nr + 1], "spacing": [1.5, 1.5], "origin": [-1.0, 2.0],
                  "inc": [True, True], "order": "F", "rev": False, "loc": "CELLS"}
            for lay in layouts(2, (nc + 1, nr + 1)):
                u = hg.same_geometry_layout(ub, *lay)
                yield {"a": e, "b": u, "masked": "none", "chain": []}
                yield {"a": u, "b": e, "masked": "none", "chain": []}


def _layout_equal(a, b):
    fa, fb = hg.flags(a), hg.flags(b)
    if fa[1] != fb[1]:
        return False
    da = [len(x) > 1 and x[0] > x[-1] for x in hg.user_axes(a)]
    db = [len(x) > 1 and x[0] > x[-1] for x in hg.user_axes(b)]
    return da == db


def check_pair(case, ctx):
    import finam as fm

    a, b = case["a"], case["b"]
    ga, gb = hg.build(a), hg.build(b)
    LA, sa, _oa = hg.ref(a)
    LB, sb, _ob = hg.ref(b)
    same_layout = _layout_equal(a, b)
    nd = hg.n_nondegenerate(a)
    ctx.nontrivial(nd >= 2 and not same_layout)
    ctx.event("equal-layout" if same_layout else "different-layout")
    ctx.event(f"masked={case['masked']}")
    if case["chain"]:
        ctx.event("behind-adapter")

    # same set of data locations by construction -> must be compatible (both directions)
    if not ga.compatible_with(gb) or not gb.compatible_with(ga):
        ctx.violation("compatible-false-negative", f"same data locations reported incompatible: {a} / {b}")
        return
    tr = ga.get_transform_to(gb)
    xa, xb = field(LA), field(LB)
    if same_layout:
        if tr is not None and not np.array_equal(tr(xa.copy()), xa):
            ctx.violation("equal-layout-changed", "transform between equal layouts changes the data")
    else:
        if tr is None:
            # allowed only if the arrays coincide anyway (e.g. all differing axes degenerate)
            if xa.shape != xb.shape or not np.array_equal(xa, xb):
                ctx.violation("transform-missing", f"no transform between different layouts {a} / {b}")
                return
        else:
            got = tr(xa.copy())
            if np.shape(got) != sb or not np.array_equal(got, xb):
                ctx.violation("transform-bare", f"transform of data without time axis wrong for {a} -> {b}")

    ma = maskfn(LA)
    mb = maskfn(LB)
    # leading axes (time) are preserved by the transform: 1 and 3 entries (a StackTime adapter delivers several),
    # plain and masked - every entry keeps its values and its mask at the same physical locations
    if tr is not None:
        for k in (1, 3):
            for masked in (False, True):
                arr = np.stack([xa + 0.25 * j for j in range(k)])
                want = np.stack([xb + 0.25 * j for j in range(k)])
                wmask = np.stack([mb] * k) if masked else np.zeros(want.shape, bool)
                if masked:
                    arr = np.ma.array(arr, mask=np.stack([ma] * k))
                got = tr(arr)
                if np.shape(got) != want.shape or not np.array_equal(np.ma.getmaskarray(got), wmask) or not np.array_equal(np.ma.getdata(got)[~wmask], want[~wmask]):
                    ctx.violation("transform-leading-axis", f"transform of {'masked ' if masked else ''}data with a leading axis of {k} entries wrong for {a} -> {b}")
                    return
    # real link (data travels with a time axis of length 1)
    mk = case["masked"]
    if mk == "fixed" and (ma.all() or not ma.any()):
        mk = "none"
    out_mask = ma if mk == "fixed" else fm.Mask.FLEX
    static = bool(case.get("static")) and not case["chain"]
    if static:
        ctx.event("static-link")
    link = hs.Link(
        fm.Info(time=hs.T0, grid=ga, units="m", mask=out_mask),
        [fm.Info(time=hs.T0, grid=gb, units="m")],
        chain=case["chain"],
        static=static,
    )
    try:
        link.connect()
    except fm.FinamMetaDataError as e:
        ctx.violation("link-connect", f"metadata exchange between compatible layouts refused: {e}")
        return
    if mk == "none":
        payload = xa.copy()
    else:
        payload = np.ma.array(xa.copy(), mask=ma)
    link.out.push_data(payload, None if static else hs.T0)
    exp_mask = mb if mk != "none" else np.zeros(sb, bool)
    # every pull is judged: a static input serves its cached value again and again, a non-static one re-reads the
    # same stored publication - the located values must be the same each time
    for n_pull in (1, 2, 3, 4):
        try:
            r = link.inputs[0].pull_data(hs.T0)
        except (fm.FinamDataError, ValueError) as e:
            ctx.violation("link-pull-error", f"pull {n_pull} through compatible layouts failed: {type(e).__name__}: {e}")
            return
        m = hs.magnitude(r)
        sfx = "" if n_pull == 1 else "-repeated-pull"
        if np.shape(m) != (1,) + tuple(sb):
            ctx.violation("link-shape" + sfx, f"delivered shape {np.shape(m)} != (1,)+{sb} (pull {n_pull})")
            return
        if not hs.unmasked_equal(m[0], xb, exp_mask, rtol=0, atol=1e-9):
            ctx.violation("link-values" + sfx, f"values not at the same physical location after {a} -> {b} (pull {n_pull}{', static link' if static else ''})")
            return
        if not np.array_equal(np.ma.getmaskarray(m[0]), exp_mask):
            ctx.violation("link-mask" + sfx, f"mask did not travel with the values (pull {n_pull})")
            return
    if same_layout and mk == "none" and not case["chain"]:
        if not np.array_equal(np.asarray(m[0]), xa):
            ctx.violation("link-equal-layout-changed", "equal layouts: delivered array differs from the produced one")


# ------------------------------------------------------------------ generated pairs
@st.composite
def pair_case(draw):
    base = draw(hg.grid_cfg(classes=("rect", "uni"), min_len=1, max_len=4))
    dim = len(hg.user_axes(base))
    lens = [len(x) for x in hg.user_axes(base)]

    def lay():
        dec = [draw(st.booleans()) and n > 1 for n in lens]
        return draw(st.sampled_from("CF")), draw(st.booleans()), dec

    a = hg.same_geometry_layout(base, *lay())
    b = hg.same_geometry_layout(base, *lay())
    # cross class: describe the uniform geometry as rectilinear on one side
    if base["cls"] == "uni" and draw(st.booleans()):
        ua = hg.user_axes(b)
        b = {"cls": "rect", "axes": [x.tolist() for x in ua], "order": b["order"], "rev": b["rev"], "loc": b["loc"]}
    chain = draw(st.sampled_from([[], [], [["scale", 1.0]], [["cb"]], [["cb"], ["scale", 1.0]]]))
    return {"a": a, "b": b, "masked": draw(st.sampled_from(["none", "fixed", "flex"])), "chain": chain, "dim": dim,
            "static": draw(st.integers(0, 3)) == 0}


def _locset(cfg):
    return {tuple(np.round(p, 9)) for p in hg.flat_locs(cfg).tolist()}


@st.composite
def compat_case(draw):
    a = draw(hg.grid_cfg(min_len=1, max_len=4))
    kind = draw(st.sampled_from(["same", "relayout", "shift", "otherloc", "resize", "independent"]))
    b = dict(a)
    if kind == "relayout" and a["cls"] != "esri":
        lens = [len(x) for x in hg.user_axes(a)]
        b = hg.same_geometry_layout(a, draw(st.sampled_from("CF")), draw(st.booleans()),
                                    [draw(st.booleans()) and n > 1 for n in lens])
    elif kind == "shift":
        k = draw(st.sampled_from(["xll", "yll"])) if a["cls"] == "esri" else None
        if a["cls"] == "esri":
            b[k] = a[k] + draw(st.sampled_from([0.25, 1.0, -0.5]))
        elif a["cls"] == "uni":
            i = draw(st.integers(0, len(a["dims"]) - 1))
            b["origin"] = list(a["origin"])
            b["origin"][i] += draw(st.sampled_from([0.25, 1.0, -0.5]))
        else:
            i = draw(st.integers(0, len(a["axes"]) - 1))
            b["axes"] = [list(x) for x in a["axes"]]
            j = draw(st.integers(0, len(b["axes"][i]) - 1))
            # move one node slightly (keeps monotonicity: gaps are >= 0.5)
            b["axes"][i][j] += draw(st.sampled_from([0.125, -0.125]))
    elif kind == "otherloc" and a["cls"] != "esri":
        b["loc"] = "POINTS" if a["loc"] == "CELLS" else "CELLS"
    elif kind == "resize":
        if a["cls"] == "esri":
            b["ncols"] = a["ncols"] + 1
        elif a["cls"] == "uni":
            b["dims"] = list(a["dims"])
            b["dims"][0] += 1
        else:
            b["axes"] = [list(x) for x in a["axes"]]
            last = b["axes"][0]
            step = 1.0 if len(last) < 2 or last[-1] > last[0] else -1.0
            last.append(last[-1] + step)
    elif kind == "independent":
        b = draw(hg.grid_cfg(min_len=1, max_len=3))
    # coordinate reference systems (a documented constructor argument): grids in different systems never describe the
    # same locations, whatever their numbers say
    if draw(st.integers(0, 3)) == 0:
        ca, cb = draw(st.sampled_from(CRS)), draw(st.sampled_from(CRS))
        a, b = dict(a, crs=ca), dict(b, crs=cb)
    # the same pair in another length unit (micrometre .. kilometre cells): compatibility must not depend on it
    return {"a": a, "b": b, "kind": kind, "scale": draw(st.sampled_from([1.0, 1.0, 1.0, 1.0e-6, 1.0e-5, 1.0e-3, 1.0e3]))}


CRS = [None, "EPSG:25832", "EPSG:25832", "EPSG:4326", "OGC:CRS84"]  # the last two: same datum, axes swapped


def check_compat(case, ctx):
    a, b = case["a"], case["b"]
    if a.get("crs") != b.get("crs"):
        ctx.event("different-crs")
        ctx.nontrivial(True)
        ga, gb = hg.build(a), hg.build(b)
        if ga.compatible_with(gb) or gb.compatible_with(ga):
            ctx.violation("compatible-across-crs", f"grids in different coordinate reference systems ({a.get('crs')} / {b.get('crs')}) reported compatible: {a} / {b}")
        return
    sc = case.get("scale", 1.0)
    ga, gb = hg.build(hg.scaled(a, sc)), hg.build(hg.scaled(b, sc))
    if sc != 1.0:
        ctx.event(f"length-scale={sc}")
    sa, sb = _locset(a), _locset(b)
    same_kind = hg.flags(a)[2] == hg.flags(b)[2]
    same_dim = len(hg.user_axes(a)) == len(hg.user_axes(b))
    same_nodes = same_dim and all(
        len(x) == len(y) and np.allclose(np.sort(x), np.sort(y), rtol=0, atol=1e-12)
        for x, y in zip(hg.user_axes(a), hg.user_axes(b))
    )
    got = bool(ga.compatible_with(gb))
    got_r = bool(gb.compatible_with(ga))
    ctx.event(f"kind={case['kind']}")
    if got != got_r:
        ctx.violation("compatible-asymmetric", f"compatible_with not symmetric for {a} / {b}")
        return
    if same_nodes and same_kind:
        ctx.event("expected-compatible")
        ctx.nontrivial(hg.n_nondegenerate(a) >= 2 and not _layout_equal(a, b))
        if not got:
            ctx.violation("compatible-false-negative", f"same data locations reported incompatible: {a} / {b} (length scale {sc})")
    elif sa != sb:
        ctx.event("expected-incompatible")
        ctx.nontrivial(hg.n_nondegenerate(a) >= 2)
        if got:
            ctx.violation("compatible-false-positive", f"different data locations reported compatible: {a} / {b} (length scale {sc})")
    else:
        ctx.event("unspecified(same location set, different description)")


@st.composite
def compat_large_case(draw):
    """rasters in projected coordinates (millions of metres): same shape and spacing, shifted by a fraction of a cell"""
    dim = draw(st.sampled_from([1, 2, 2, 3]))
    dims = [draw(st.integers(2, 5)) for _ in range(dim)]
    sp = draw(st.sampled_from([25.0, 10.0, 100.0]))
    origin = [draw(st.sampled_from([4400000.0, 5600000.0, 320000.0])) for _ in range(dim)]
    k = draw(st.integers(0, dim - 1))
    shift = draw(st.sampled_from([0.0, 0.0, 0.3, 0.6, 1.0, -0.6]))
    base = {"cls": "uni", "dims": dims, "spacing": [sp] * dim, "origin": origin, "inc": [True] * dim, "order": "F",
            "rev": False, "loc": draw(st.sampled_from(["CELLS", "POINTS"]))}
    lens = dims
    a = hg.same_geometry_layout(base, draw(st.sampled_from("CF")), draw(st.booleans()), [draw(st.booleans()) and n > 1 for n in lens])
    b2 = dict(base, origin=[o + (sp * shift if i == k else 0.0) for i, o in enumerate(origin)])
    b = hg.same_geometry_layout(b2, draw(st.sampled_from("CF")), draw(st.booleans()), [draw(st.booleans()) and n > 1 for n in lens])
    return {"a": a, "b": b, "kind": "large-shift" if shift else "large-same"}


def check_compat_long(case, ctx):
    """long axes (10^3 .. 10^5 nodes): a copy shifted by a fraction of a cell (or a whole cell) along the long axis
    has different data locations everywhere -> must be incompatible; the unshifted copy in another layout must be
    compatible. Expectation is analytical (shift != 0), no location sets are built."""
    a, b, shift = case["a"], case["b"], case["shift"]
    ga, gb = hg.build(a), hg.build(b)
    got, got_r = bool(ga.compatible_with(gb)), bool(gb.compatible_with(ga))
    ctx.event(f"long-axis n={max(a['dims'])} shift={shift}")
    ctx.nontrivial(True)
    if got != got_r:
        ctx.violation("compatible-asymmetric", f"compatible_with not symmetric for dims {a['dims']} shift {shift}")
    elif shift == 0 and not got:
        ctx.violation("compatible-false-negative", f"same data locations reported incompatible: dims {a['dims']} layouts {hg.flags(a)} / {hg.flags(b)}")
    elif shift != 0 and got:
        ctx.violation("compatible-false-positive-long-axis", f"grid with dims {a['dims']} and its copy shifted by {shift} cell(s) along the long axis reported compatible")


def enum_compat_long(tier):
    for n in (1001, 20001, 50001, 100001, 131073):
        for dims in ([n], [3, n], [n, 2, 2]):
            k = dims.index(n)
            dim = len(dims)
            for shift in (0.0, 0.01, 0.3, 0.5, 1.0, -1.0):
                for loc in ("CELLS", "POINTS"):
                    base = {"cls": "uni", "dims": dims, "spacing": [1.0] * dim, "origin": [0.0] * dim, "inc": [True] * dim,
                            "order": "F", "rev": False, "loc": loc}
                    b2 = dict(base, origin=[shift if i == k else 0.0 for i in range(dim)])
                    other = hg.same_geometry_layout(b2, "C", dim > 1, [i == k for i in range(dim)]) if shift in (0.0, 0.5) else b2
                    yield {"a": base, "b": other, "shift": shift}


# ------------------------------------------------------------------ histories over a pool of live grid objects
def check_objects(case, ctx):
    """a pool of up to 4 live grid objects of one geometry (copies, other layouts), data locations switched in place
    through the setter; compatible_with / get_transform_to are asked again and again for the same pairs of objects.
    Every answer must be the one fresh grids in the present state would give (nothing remembered from earlier)."""
    cfgs = [dict(case["grid"])]
    objs = [hg.build(cfgs[0])]
    asked_before_change = changed = False
    asked = set()
    for op in case["ops"]:
        if op[0] == "copy":
            if len(objs) < 4:
                k = op[2] % len(objs)
                objs.append(objs[k].copy(deep=bool(op[1])))
                cfgs.append(dict(cfgs[k]))
        elif op[0] == "relayout":
            if len(objs) < 4:
                k = op[1] % len(objs)
                lens = [len(a) for a in hg.user_axes(cfgs[k])]
                c2 = hg.same_geometry_layout(cfgs[k], op[2], bool(op[3]), [bool(d) and n > 1 for d, n in zip(op[4], lens)])
                objs.append(hg.build(c2))
                cfgs.append(c2)
        elif op[0] == "setloc":
            k = op[2] % len(objs)
            if cfgs[k]["loc"] != op[1] and any(k in pair for pair in asked):
                changed = True
            objs[k].data_location = op[1]
            cfgs[k] = dict(cfgs[k], loc=op[1])
        else:
            i, j = op[1] % len(objs), op[2] % len(objs)
            exp = cfgs[i]["loc"] == cfgs[j]["loc"]  # one geometry: the location sets agree iff the data locations do
            if changed and (i, j) in asked:
                asked_before_change = True
            asked.add((i, j))
            got = bool(objs[i].compatible_with(objs[j]))
            if got != exp:
                ctx.violation("compatible-stale" if (i, j) in asked else "compatible-wrong",
                              f"after {op}: object {i} ({hg.flags(cfgs[i])}) compatible_with object {j} ({hg.flags(cfgs[j])}) -> {got}, fresh grids give {exp}")
                return
            if op[0] == "transform":
                try:
                    tr = objs[i].get_transform_to(objs[j])
                except ValueError:
                    if exp:
                        ctx.violation("transform-refused", f"after {op}: transform between compatible objects {i}->{j} refused")
                        return
                    continue
                if not exp:
                    ctx.violation("transform-of-incompatible", f"after {op}: transform between incompatible objects {i}->{j} returned")
                    return
                LA, _sa, _oa = hg.ref(cfgs[i])
                LB, sb, _ob = hg.ref(cfgs[j])
                xa, xb = field(LA), field(LB)
                out = xa if tr is None else tr(xa.copy())
                if np.shape(out) != tuple(sb) or not np.array_equal(out, xb):
                    ctx.violation("transform-stale", f"after {op}: transform {i}->{j} does not put the values at the same physical locations")
                    return
    ctx.event("asked-again-after-in-place-change" if asked_before_change else "plain-history")
    ctx.nontrivial(asked_before_change and len(objs) >= 2)


_k = st.integers(0, 3)
obj_op = st.one_of(
    st.tuples(st.just("copy"), st.booleans(), _k),
    st.tuples(st.just("relayout"), _k, st.sampled_from("CF"), st.booleans(), st.lists(st.booleans(), min_size=3, max_size=3)),
    st.tuples(st.just("setloc"), st.sampled_from(["CELLS", "POINTS"]), _k),
    st.tuples(st.just("setloc"), st.sampled_from(["CELLS", "POINTS"]), _k),
    st.tuples(st.just("compat"), _k, _k),
    st.tuples(st.just("compat"), _k, _k),
    st.tuples(st.just("transform"), _k, _k),
    st.tuples(st.just("transform"), _k, _k),
).map(list)


@st.composite
def objects_case(draw):
    """creation ops first, then rounds of: ask about a pair - switch the location of one of the two in place - ask
    about the same pair again (plus free ops in between)"""
    ops = [draw(obj_op.filter(lambda o: o[0] in ("copy", "relayout"))) for _ in range(draw(st.integers(1, 3)))]
    for _ in range(draw(st.integers(1, 5))):
        i, j = draw(_k), draw(_k)
        kind = draw(st.sampled_from(["compat", "transform"]))
        ops.append([kind, i, j])
        ops += draw(st.lists(obj_op, max_size=2))
        ops.append(["setloc", draw(st.sampled_from(["CELLS", "POINTS"])), draw(st.sampled_from([i, j]))])
        ops.append([draw(st.sampled_from(["compat", "transform"])), i, j])
    return {"grid": draw(hg.grid_cfg(classes=("rect", "uni"), min_len=2, max_len=3)), "ops": ops}


objects_st = objects_case()

def parts():
    return [
        Part("canon_enum", check_canon, enumerate=lambda tier: hg.enum_layouts(), exhaustive=True),
        Part("canon_gen", check_canon, strategy=hg.grid_cfg(), budget={"quick": 800, "thorough": 20000}),
        Part("pairs_enum", check_pair, enumerate=enum_pairs, exhaustive=True),
        Part("pairs_gen", check_pair, strategy=pair_case(), budget={"quick": 1200, "thorough": 30000}),
        Part("compat_gen", check_compat, strategy=compat_case(), budget={"quick": 1500, "thorough": 30000}),
        Part("compat_long_enum", check_compat_long, enumerate=enum_compat_long, exhaustive=True),
        Part("object_histories", check_objects, strategy=objects_st, budget={"quick": 1200, "thorough": 30000}),
        Part("compat_large", check_compat, strategy=compat_large_case(), budget={"quick": 300, "thorough": 6000}),
    ]
