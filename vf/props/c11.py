"""C11 - time interpolation adapters equal their mathematical definition."""
from datetime import timedelta
from fractions import Fraction

import numpy as np
from hypothesis import strategies as st

from .. import h_slot as hs
from ..runner import Part

PROP = "C11"
RULE = (
    "operation sequences on Output >> adapter >> Input for next/prev/linear/step (step position from "
    "{0,.25,.3,.5,.7,1} or random rational): push(gap in minutes 1..600, value) and pull(interval index, "
    "fraction num/den) interleaved, requests non-decreasing within the published range, plus out-of-range "
    "requests (before first / after newest). Reference = definition evaluated on the complete history "
    "(never evicts). non-trivial = >=4 publications, >=1 request strictly inside an interval and >=1 request "
    "made after an earlier request had advanced past a publication (eviction happened). Part backlog: bursts "
    "of 20-70 publications buffered before the target asks (fast source, slow target), requests on any "
    "buffered publication or interval. Part micro_steps_enum: complete - two publications 1-9 us apart, every "
    "adapter / step position, a request on every microsecond (594 cases; trivial by the rule above, exhaustive by "
    "construction). distinct = JSON."
)
ASSUMPTIONS = [
    "values are floats with |v| <= 1e6 scaled by 10^k (k in {-12,-9,0,9}), or NaN / +-inf (gaps); finite expectations of linear interpolation are compared with tolerance 1e-12 relative to max(|v|, 10^k), everything else exactly (NaN == NaN)",
    "request times are exact on a microsecond lattice (fractions with denominators dividing the gap)",
    "request times are non-decreasing (documented usage); publications strictly increasing",
]
DENS = [1, 2, 3, 4, 5, 8, 10]


BIG = (257, 256)  # 65 792 cells: beyond 2^16 elements


def _payload(v, grid, vscale=1.0):
    if not grid:
        return float(v)
    if grid == "big":
        out = np.full(BIG, float(v))
        out[-1, -1] = v + 0.5 * vscale
        return out
    return np.array([[v], [v + 0.5 * vscale]], dtype=float)  # data_shape (2, 1) of UniformGrid((3, 2))


def reference(kind, p, pubs, t):
    """pubs: list of (time, value) complete history; t within [first, last]"""
    for i, (ti, vi) in enumerate(pubs):
        if t == ti:
            return vi, vi
    j = next(i for i, (ti, _v) in enumerate(pubs) if ti > t)
    (t0, v0), (t1, v1) = pubs[j - 1], pubs[j]
    if kind == "next":
        return v1, v1
    if kind == "prev":
        return v0, v0
    frac = Fraction((t - t0) // timedelta(microseconds=1), (t1 - t0) // timedelta(microseconds=1))
    if kind == "lin":
        f = float(frac)
        return v0 + (v1 - v0) * f, max(abs(v0), abs(v1))
    # step: new value if relative position > p (compared as floats, like any caller would)
    return (v1 if float(frac) > p else v0), v0


def _bracket(pubs, t):
    """times of the publications bracketing t"""
    j = next((i for i, (ti, _v) in enumerate(pubs) if ti > t), len(pubs) - 1)
    return {pubs[max(j - 1, 0)][0], pubs[j][0]}


def check(case, ctx):
    import finam as fm

    spec, grid, ops = case["adapter"], case["grid"], case["ops"]
    kind = spec[0]
    p = spec[1] if kind == "step" else None
    g = fm.UniformGrid((BIG[0] + 1, BIG[1] + 1)) if grid == "big" else (fm.UniformGrid((3, 2)) if grid else fm.NoGrid())
    un = case.get("units", "m")  # also units with an offset (degC, degF): differences of such quantities are deltas
    if un != "m":
        ctx.event(f"units={un!r}")
    link = hs.Link(fm.Info(time=hs.T0, grid=g, units=un), [fm.Info(time=hs.T0, grid=g, units=un)], chain=[spec])
    link.connect()
    inp = link.inputs[0]
    # unit of the publication gaps: a minute (default), a second, a millisecond, a microsecond (request times are then
    # rounded to whole microseconds by datetime arithmetic; the reference works on whatever time results)
    unit = timedelta(microseconds=int(case.get("unit_us") or 60_000_000))
    if case.get("unit_us"):
        ctx.event(f"gap-unit={case['unit_us']}us")
    rel = lambda t: round((t - hs.T0) / unit, 3)  # noqa: E731  (times in messages: multiples of the gap unit)
    vscale = 10.0 ** int(case.get("vexp", 0))  # numeric scale of the values; the tolerance of linear is relative to it
    if vscale != 1.0:
        ctx.event(f"value-scale=1e{case['vexp']}")
    pubs = []
    last_req = None
    inside = evicted = later_after_evict = False
    n_pull = 0
    t_now = hs.T0
    for op in ops:
        if op[0] == "push":
            t_now = t_now + op[1] * unit if pubs else hs.T0
            v = float(op[2]) * vscale
            link.out.push_data(_payload(v, grid, vscale), t_now)
            pubs.append((t_now, v))
            continue
        if not pubs:
            try:
                inp.pull_data(hs.T0)
            except fm.FinamNoDataError:
                continue
            ctx.violation("pull-before-data", "pull before any publication did not raise FinamNoDataError")
            return
        first, newest = pubs[0][0], pubs[-1][0]
        if op[0] == "out":
            t = newest + op[2] * unit if op[1] == "after" else first - op[2] * unit
            try:
                inp.pull_data(t)
            except fm.FinamTimeError:
                ctx.event("out-of-range-refused")
                continue
            ctx.violation(f"extrapolates-{op[1]}", f"{kind}: request {op[1]} the published range was served")
            return
        # in-range pull: interval index k among publications at/after the last request, fraction num/den
        lo = last_req if last_req is not None else first
        cand = [i for i in range(len(pubs) - 1) if pubs[i + 1][0] >= lo]
        if not cand:
            t = max(lo, newest) if lo <= newest else None
            if t is None:
                continue
        else:
            i = cand[op[1] % len(cand)]
            t0, t1 = pubs[i][0], pubs[i + 1][0]
            t = t0 + (t1 - t0) * op[2] / op[3]
            if t < lo:
                t = lo
        exp, scale = reference(kind, p, pubs, t)
        try:
            r = inp.pull_data(t)
        except (fm.FinamTimeError, fm.FinamNoDataError) as e:
            ctx.violation(f"{kind}-refused", f"{kind}: in-range request at {rel(t)} units refused: {type(e).__name__}: {e}")
            return
        n_pull += 1
        m = np.asarray(hs.magnitude(r), dtype=float)
        want = np.asarray(_payload(exp, grid, vscale), dtype=float).reshape(m.shape[1:] if m.ndim else ())
        got = m[0] if m.ndim else m
        tol = 1e-12 * max(vscale, abs(scale)) if kind == "lin" else 0.0
        on_publication = any(t == ti for ti, _ in pubs)
        if kind == "lin" and not on_publication and not all(np.isfinite(v) for ti, v in pubs if ti in _bracket(pubs, t)):
            # strictly inside an interval with a gap (NaN, +-inf) at one end the interpolant is not defined by the
            # statement (its value depends on how the formula is written): not judged
            ctx.event("interpolation-across-a-gap(not judged)")
            same = True
        elif not np.all(np.isfinite(want)):
            # a published gap comes back untouched: at its publication time, and from next / previous / step
            same = got.shape == np.shape(want) and np.array_equal(got, want, equal_nan=True)
            ctx.event("non-finite-expected")
        else:
            same = got.shape == np.shape(want) and np.allclose(got, want, rtol=0, atol=tol)
        if not same:
            on_pub = any(t == ti for ti, _ in pubs)
            tag = f"{kind}-at-publication" if on_pub else f"{kind}-value"
            ctx.violation(tag, f"{kind}{'' if p is None else p}: request at {rel(t)} units -> {got.ravel()[:2]}, definition {np.ravel(want)[:2]}; pubs {[(rel(a), b) for a, b in pubs][-6:]}")
            return
        if any(ti < t < tj for (ti, _a), (tj, _b) in zip(pubs, pubs[1:])) and not any(t == ti for ti, _ in pubs):
            inside = True
        if evicted:
            later_after_evict = True
        # this request lets the adapter drop everything before the newest publication <= t
        if sum(1 for ti, _ in pubs if ti <= t) >= 2:
            evicted = True
        last_req = t
    link.finalize()
    ctx.event(f"adapter={kind}")
    ctx.event("big-grid" if grid == "big" else ("gridded" if grid else "scalar"))
    ctx.nontrivial(len(pubs) >= 4 and inside and later_after_evict)


value_st = st.one_of(
    st.integers(-1000, 1000).map(float),
    st.integers(-1000, 1000).map(float),
    st.floats(min_value=-1e6, max_value=1e6, allow_nan=False, allow_infinity=False, width=64),
    st.floats(min_value=-1e6, max_value=1e6, allow_nan=False, allow_infinity=False, width=64),
    st.sampled_from(["nan", "inf", "-inf"]),  # gaps in the data (strings keep the case files plain JSON)
)
step_pos = st.one_of(
    st.sampled_from([0.0, 0.25, 0.3, 0.5, 0.7, 1.0]),
    st.builds(lambda n, d: min(n, d) / d, st.integers(0, 10), st.sampled_from(DENS)),
)
adapter_st = st.one_of(
    st.just(["next"]), st.just(["prev"]), st.just(["lin"]), st.tuples(st.just("step"), step_pos).map(list)
)
push_st = st.tuples(st.just("push"), st.one_of(st.integers(1, 600), st.integers(1, 600), st.sampled_from([1440, 2881, 10080])), value_st).map(list)
frac_st = st.sampled_from(DENS).flatmap(lambda d: st.tuples(st.integers(0, d), st.just(d)))
pull_st = st.tuples(st.just("pull"), st.integers(0, 5), frac_st).map(lambda x: ["pull", x[1], x[2][0], x[2][1]])
out_st = st.tuples(st.just("out"), st.sampled_from(["after", "before"]), st.integers(1, 300)).map(list)


@st.composite
def case_st(draw, max_ops=30):
    ops = [draw(push_st)]
    n = draw(st.integers(3, max_ops))
    for _ in range(n):
        k = draw(st.integers(0, 9))
        ops.append(draw(push_st if k < 4 else (pull_st if k < 9 else out_st)))
    return {"adapter": draw(adapter_st), "grid": draw(st.booleans()), "ops": ops, "vexp": draw(st.sampled_from([0, 0, 0, -9, -12, 9])),
            "unit_us": draw(st.sampled_from([None, None, None, 1, 1, 1000, 1000000])),
            "units": draw(st.sampled_from(["m", "m", "m", "degC", "degF", ""]))}


@st.composite
def backlog_case(draw):
    """fast source / slow target: bursts of 20-70 publications are buffered before the target asks, and the
    requests pick any of the buffered intervals (exactly on publications as often as strictly inside)"""
    ops = []

    def burst():
        gap = draw(st.sampled_from([1, 7, 60, 1440]))
        v = draw(st.integers(-500, 500))
        for k in range(draw(st.integers(20, 70))):
            ops.append(["push", gap + (k % 3 if draw(st.booleans()) else 0), float(v + 3 * k + (k % 5))])

    burst()
    for _ in range(draw(st.integers(2, 14))):
        k = draw(st.integers(0, 9))
        if k == 0:
            burst()
        elif k == 1:
            ops.append(draw(out_st))
        else:
            num, den = draw(st.one_of(st.sampled_from([(0, 1), (1, 1)]), frac_st))
            ops.append(["pull", draw(st.integers(0, 70)), num, den])
    return {"adapter": draw(adapter_st), "grid": draw(st.booleans()), "ops": ops}


@st.composite
def big_grid_case(draw):
    """payloads of 65 792 cells, several requests per interval and exactly on publications"""
    ops = [["push", 10, 1.0]]
    for k in range(draw(st.integers(3, 6))):
        ops.append(["push", draw(st.sampled_from([10, 30, 7])), float(draw(st.integers(-50, 50)))])
        for _ in range(draw(st.integers(1, 3))):
            num, den = draw(st.one_of(st.sampled_from([(0, 1), (1, 1)]), frac_st))
            ops.append(["pull", 0, num, den])
    return {"adapter": draw(adapter_st), "grid": "big", "ops": ops}


def enum_micro_steps(tier):
    """complete: two publications 1-9 microseconds apart, every adapter (step positions incl. 1/3, 2/3, 0.3, 0.7),
    a request on every microsecond of the interval - time arithmetic that rounds to whole microseconds has nowhere
    to hide (added after the re-scan of filed seeds showed that sampling alone had become too thin for C11-r6)"""
    adapters = [["next"], ["prev"], ["lin"]] + [["step", p] for p in (0.0, 0.25, 0.3, 1 / 3, 0.5, 2 / 3, 0.7, 1.0)]
    for ad in adapters:
        for g in range(1, 10):
            for k in range(g + 1):
                yield {"adapter": ad, "grid": False, "ops": [["push", 0, 1.0], ["push", g, 5.0], ["pull", 0, k, g]], "unit_us": 1}


def parts():
    return [
        Part("micro_steps_enum", check, enumerate=enum_micro_steps, exhaustive=True),
        Part("big_grids", hs.with_epoch(check), strategy=hs.plus_epoch(big_grid_case()), budget={"quick": 60, "thorough": 1500}, shrink_budget=60),
        Part("histories", hs.with_epoch(check), strategy=hs.plus_epoch(case_st()), strategy_thorough=hs.plus_epoch(case_st(max_ops=80)), budget={"quick": 2400, "thorough": 80000}, fuzz={"thorough": 10000}),
        Part("backlog", hs.with_epoch(check), strategy=hs.plus_epoch(backlog_case()), budget={"quick": 300, "thorough": 12000}, shrink_budget=150),
    ]
