"""C13 - delay adapters deliver exactly the source's data for the shifted time."""
from datetime import timedelta

import numpy as np
from hypothesis import strategies as st

from .. import h_slot as hs
from ..runner import Part

PROP = "C13"
RULE = (
    "chains of 1-3 delay adapters (fixed delay 0..600 min incl. non-multiples of the steps, delay-to-pull with "
    "1-4 steps and extra delay, delay-to-push) mixed with pass-through adapters between a real Output with a "
    "known publication history (value = publication time) and an Input; pushes and non-decreasing requests "
    "interleaved. Oracle = composition of the documented shifts (delays add up) for the time that reaches "
    "the source output (logged by wrapping Output.get_data) and nearest-publication value; additionally the "
    "time the driver's dependency walk (finam.schedule._find_dependencies) assumes for the same link must "
    "equal the time actually requested. non-trivial = >=2 delay adapters in the chain, or a clamped request "
    "followed by an unclamped one. Part calendar_delays: relativedelta delays (months/years/days) on daily "
    "series from arbitrary start dates incl. month ends, judged by max(t - delay, start) in calendar "
    "arithmetic. distinct = canonical JSON."
)
ASSUMPTIONS = [
    "start time of a delay adapter = time of the exchanged metadata = first publication time",
    "requests are non-decreasing and not beyond the newest publication (scheduler guarantee C01)",
    "driver view read through the private helper finam.schedule._find_dependencies (named in the property's anchors); if it is absent that sub-oracle is skipped and counted",
]


class Model:
    def __init__(self, chain):
        self.chain = chain
        self.hist = {i: [] for i, a in enumerate(chain) if a[0] == "dpull"}

    def request(self, t, newest, commit=True):
        """time that reaches the source when the consumer asks for t; list of clamp flags"""
        cur = t
        clamped = False
        for i in range(len(self.chain) - 1, -1, -1):
            a = self.chain[i]
            if a[0] == "dfix":
                n = cur - timedelta(minutes=a[1])
                if n < hs.T0:
                    n, clamped = hs.T0, True
                cur = n
            elif a[0] == "dpull":
                h = self.hist[i]  # requests seen so far at this adapter
                k = len(h) + 1
                base = h[k - a[1] - 1] if k - a[1] >= 1 else hs.T0
                n = base - timedelta(minutes=a[2])
                if n < hs.T0:
                    n, clamped = hs.T0, True
                if commit:
                    h.append(cur)
                cur = n
            elif a[0] == "dpush":
                cur = min(cur, newest) if newest is not None else hs.T0
        return cur, clamped


def check(case, ctx):
    import finam as fm

    chain, ops = case["chain"], case["ops"]
    g = fm.NoGrid()
    link = hs.Link(fm.Info(time=hs.T0, grid=g, units="m"), [fm.Info(time=hs.T0, grid=g, units="m")], chain=chain)
    link.connect()
    inp = link.inputs[0]
    log = []
    orig = link.out.get_data

    def logged(time, target):
        log.append(time)
        return orig(time, target)

    link.out.get_data = logged
    try:
        from finam.schedule import _find_dependencies  # pylint: disable=import-outside-toplevel
    except ImportError:
        _find_dependencies = None
        ctx.event("driver-view-unavailable")

    # the driver walks *all* inputs of a component: give it a sibling input fed through a push-based adapter
    # (declared first) - whatever happens on that link must not influence the time assumed for this one
    sib_out = fm.Output(name="s", info=fm.Info(time=hs.T0, grid=g, units="m"))
    sib_in = fm.Input(name="a", info=fm.Info(time=hs.T0, grid=g, units="m"))
    sib_out >> fm.adapters.LinearTime() >> sib_in
    sib_in.ping()
    sib_in.exchange_info()

    class _Comp:  # what the driver's walk needs from a component
        inputs = {"a": sib_in, "i": inp}

    model = Model(chain)
    ndel = sum(1 for a in chain if a[0] in hs.DELAYS)
    has_push_delay = any(a[0] == "dpush" for a in chain)
    pubs = []
    last = hs.T0
    t_now = hs.T0
    seen_clamped = clamp_then_free = False
    for op in ops:
        if op[0] == "push":
            t_now = t_now + timedelta(minutes=op[1]) if pubs else hs.T0
            link.out.push_data(float(hs.mins(t_now)), t_now)
            pubs.append(t_now)
            continue
        if not pubs:
            # a pull before anything was published fails and is not a request the delay-to-pull adapter may count
            try:
                inp.pull_data(hs.T0 + timedelta(minutes=17 * (op[1] + 1)))
            except fm.FinamNoDataError:
                ctx.event("failed-pull-before-first-publication")
                continue
            ctx.violation("pull-before-data", f"chain {chain}: pull before any publication did not raise FinamNoDataError")
            return
        newest = pubs[-1]
        t = last + (newest - last) * op[1] / op[2]
        t = max(last, min(t, newest))
        if has_push_delay and len(op) > 3 and op[3]:
            # behind a delay-to-push adapter the consumer may run ahead of the producer
            t = max(last, newest + timedelta(minutes=op[3]))
            ctx.event("request-beyond-newest-publication")
        # what the driver would assume for this link right now
        assumed = None
        if _find_dependencies is not None and not has_push_delay:
            try:
                deps = _find_dependencies(_Comp, {link.out: object(), sib_out: object()}, t)
                if link.out in deps:
                    assumed = deps[link.out][0]
            except (TypeError, AttributeError, KeyError, IndexError):
                # private helper changed its interface: this sub-oracle is skipped (C01/C02/C04 decide it black-box)
                _find_dependencies = None
                ctx.event("driver-view-unavailable")
        exp, clamped = model.request(t, newest)
        del log[:]
        try:
            r = inp.pull_data(t)
        except (fm.FinamTimeError, fm.FinamNoDataError) as e:
            ctx.violation("pull-refused", f"chain {chain}: request at {hs.mins(t)} min refused ({type(e).__name__}: {e}); model shift -> {hs.mins(exp)}")
            return
        if len(log) != 1:
            ctx.violation("source-asked-not-once", f"source output asked {len(log)} times for one pull")
            return
        if log[0] != exp:
            kinds = "+".join(a[0] for a in chain if a[0] in hs.DELAYS)
            ctx.violation(f"shifted-time:{kinds if ndel == 1 else 'chained'}",
                          f"chain {chain}: request {hs.mins(t)} min reached the source as {hs.mins(log[0])}, specified shift gives {hs.mins(exp)}")
            return
        if assumed is not None and assumed != log[0]:
            ctx.violation("driver-assumes-other-time",
                          f"chain {chain}: driver's dependency walk assumes {hs.mins(assumed)} min, actually requested {hs.mins(log[0])} min (request {hs.mins(t)})")
            return
        # value: nearest publication to the shifted time
        got = float(np.asarray(r.magnitude).ravel()[0])
        d = [abs((p - exp).total_seconds()) for p in pubs]
        best = min(d)
        ok_vals = [float(hs.mins(p)) for p, dd in zip(pubs, d) if dd == best]
        if got not in ok_vals:
            ctx.violation("value", f"chain {chain}: request {hs.mins(t)} -> shifted {hs.mins(exp)}: delivered publication {got}, nearest is {ok_vals}")
            return
        if seen_clamped and not clamped:
            clamp_then_free = True
        seen_clamped = seen_clamped or clamped
        last = t
    link.finalize()
    ctx.event(f"delays={ndel}")
    for a in chain:
        ctx.event(f"has-{a[0]}")
    ctx.nontrivial(len(pubs) >= 2 and (ndel >= 2 or clamp_then_free))


delay_st = st.one_of(
    st.tuples(st.just("dfix"), st.one_of(st.sampled_from([0, 30, 60, 90, 600, 1500, 3000]), st.integers(0, 400))),
    st.tuples(st.just("dpull"), st.integers(1, 4), st.one_of(st.just(0), st.integers(0, 200))),
    st.just(("dpush",)),
).map(list)
pass_st = st.sampled_from([["scale", 1.0], ["cb"]])


@st.composite
def case_st(draw):
    nd = draw(st.integers(1, 3))
    chain = []
    for _ in range(nd):
        if draw(st.integers(0, 2)) == 0:
            chain.append(draw(pass_st))
        chain.append(draw(delay_st))
    if draw(st.booleans()):
        chain.append(draw(pass_st))
    ops = [["pull", k, 1, 0] for k in range(draw(st.sampled_from([0, 0, 1, 2])))] + [["push", 0]]
    for _ in range(draw(st.integers(4, 30))):
        if draw(st.integers(0, 9)) < 4:
            ops.append(["push", draw(st.one_of(st.sampled_from([30, 60, 90, 1440, 4000]), st.integers(1, 300)))])
        else:
            d = draw(st.sampled_from([1, 2, 3, 4, 7]))
            ops.append(["pull", draw(st.integers(0, d)), d, draw(st.sampled_from([0, 0, 0, 15, 100]))])
    return {"chain": chain, "ops": ops}


def check_composition(spec, ctx):
    """the same claim on real compositions: every consumer pull during an update must reach the time-stepped
    source output exactly once with the composed shifted time (through pass-through adapters, chained delay
    adapters and pull-based components), or not at all if a push-based adapter answers from its buffer"""
    from .. import h_sched as S

    outcome, msg, trace, _b = S.run(spec)
    if outcome != "ok":
        ctx.event(f"outcome={outcome}(not judged here)")
        return
    viol, stats = S.monitor(spec, trace, want=("C13",))
    ctx.event("requests-checked", stats["requests_checked"])
    ctx.event("values-checked", stats.get("values_checked", 0))
    nd = sum(1 for l in spec["links"] for a in l[2] if a[0] in hs.DELAYS)
    ctx.nontrivial(nd >= 1 and stats["requests_checked"] >= 5)
    for _p, tag, m, _ev in viol:
        ctx.violation(tag, m)
        return


# ------------------------------------------------------------------ calendar delays (relativedelta)
def check_calendar(case, ctx):
    """daily source >> [Scale] >> DelayFixed/DelayToPull with a calendar delay (months/years/days, accepted by the
    constructors through is_timedelta) >> Input. Calendar arithmetic is not invertible (31 Jan + 1 month = 28 Feb),
    so the only sound oracle is the statement itself: the source is asked for max(t - delay, start)."""
    from datetime import datetime

    import finam as fm
    from dateutil.relativedelta import relativedelta

    start = datetime(*case["start"])
    delay = relativedelta(**case["delay"])
    if case["kind"] == "dfix":
        ad = fm.adapters.DelayFixed(delay)
    else:
        ad = fm.adapters.DelayToPull(steps=case["steps"], additional_delay=delay)
    out = fm.Output(name="o", info=fm.Info(time=start, grid=fm.NoGrid(), units=""))
    inp = fm.Input(name="i", info=fm.Info(time=start, grid=fm.NoGrid(), units=""))
    x = out
    if case["scale"]:
        x = x >> fm.adapters.Scale(1.0)
    # optionally a second fixed calendar delay upstream of the first adapter: the shifts are applied one after the
    # other (calendar arithmetic is not additive: 31 Mar - 1 month - 1 month = 28 Jan, 31 Mar - 2 months = 31 Jan)
    delay_up = relativedelta(**case["delay_up"]) if case.get("delay_up") else None
    if delay_up is not None:
        x = x >> fm.adapters.DelayFixed(delay_up)
        ctx.event("two-calendar-delays")
    x >> ad >> inp
    inp.ping()
    inp.exchange_info()
    try:
        from finam.schedule import _find_dependencies  # pylint: disable=import-outside-toplevel
    except ImportError:
        _find_dependencies = None

    class _Comp:  # what the driver's dependency walk needs from a component
        inputs = {"i": inp}

    log = []
    orig = out.get_data

    def spy(time, target):
        log.append(time)
        return orig(time, target)

    out.get_data = spy
    n = case["npubs"]
    for k in range(n + 1):
        out.push_data(float(k), start + timedelta(days=k))
    t = start
    reqs = [start]
    clamped = unclamped = False
    for inc in case["reqs"]:
        t = t + timedelta(days=inc)
        if t > start + timedelta(days=n):
            break
        if case["kind"] == "dfix":
            base = t
        else:
            seq = reqs[-case["steps"]:] if len(reqs) > 0 else [start]
            base = seq[0]
        want = base - delay
        if want < start:
            want, clamped = start, True
        else:
            unclamped = True
        if delay_up is not None:
            want = max(want - delay_up, start)
        assumed = None
        if _find_dependencies is not None:
            try:
                deps = _find_dependencies(_Comp, {out: object()}, t)
                assumed = deps[out][0] if out in deps else None
            except (TypeError, AttributeError, KeyError, IndexError):
                _find_dependencies = None  # private helper changed its interface: sub-oracle skipped
                ctx.event("driver-view-unavailable")
        try:
            r = inp.pull_data(t)
        except fm.FinamTimeError as e:
            ctx.violation("calendar-delay-refused", f"{case['kind']} delay {case['delay']} start {start.date()}: request {t.date()} (source time {want.date()}) refused: {str(e)[:120]}")
            return
        reqs.append(t)
        if not log or log[-1] != want:
            ctx.violation("calendar-delay-request", f"{case['kind']} delay {case['delay']} start {start.date()}: request {t.date()} reached the source as {log[-1] if log else None}, expected {want}")
            return
        if assumed is not None and assumed != log[-1]:
            ctx.violation("calendar-driver-view", f"{case['kind']} delays {case['delay']} / {case.get('delay_up')} start {start.date()}: for a pull at {t.date()} the driver assumes source time {assumed}, the pull asks the source for {log[-1]}")
            return
        got = float(np.ravel(hs.magnitude(r))[0])
        exp = float((want - start).days)
        if got != exp:
            ctx.violation("calendar-delay-value", f"{case['kind']} delay {case['delay']} start {start.date()}: request {t.date()} -> publication of day {got}, expected day {exp} ({want.date()})")
            return
    out.finalize()
    ctx.event(f"kind={case['kind']}")
    if start.day >= 29:
        ctx.event("start-at-month-end")
    ctx.nontrivial(clamped and unclamped)


@st.composite
def calendar_case(draw):
    y = draw(st.sampled_from([2001, 2003, 2004]))
    m = draw(st.integers(1, 12))
    dmax = [31, 29 if y == 2004 else 28, 31, 30, 31, 30, 31, 31, 30, 31, 30, 31][m - 1]
    d = draw(st.one_of(st.integers(1, dmax), st.integers(max(1, dmax - 3), dmax)))
    delay = {}
    if draw(st.integers(0, 3)) > 0:
        delay["months"] = draw(st.integers(1, 3))
    if draw(st.integers(0, 2)) == 0:
        delay["days"] = draw(st.integers(0, 40))
    if draw(st.integers(0, 5)) == 0:
        delay["years"] = 1
    if not delay:
        delay["days"] = draw(st.integers(0, 40))
    kind = draw(st.sampled_from(["dfix", "dfix", "dpull"]))
    npubs = 470 if "years" in delay else 140
    reqs = draw(st.lists(st.sampled_from([0, 1, 1, 1, 2, 3]), min_size=npubs // 2, max_size=npubs))
    delay_up = None
    if draw(st.integers(0, 2)) == 0:
        delay_up = draw(st.sampled_from([{"months": 1}, {"months": 1}, {"months": 2}, {"days": 3}, {"months": 1, "days": 1}]))
    return {"start": [y, m, d], "delay": delay, "delay_up": delay_up, "kind": kind, "steps": draw(st.integers(1, 3)), "scale": draw(st.booleans()), "npubs": npubs, "reqs": reqs}


def parts():
    from .. import h_sched_gen as G

    return [
        Part("chains", hs.with_epoch(check), strategy=hs.plus_epoch(case_st()), budget={"quick": 2500, "thorough": 60000}),
        Part("compositions", check_composition, strategy=G.dag_spec(), budget={"quick": 800, "thorough": 40000}, fuzz={"thorough": 5000}),
        Part("calendar_delays", check_calendar, strategy=calendar_case(), budget={"quick": 250, "thorough": 8000}, shrink_budget=150),
    ]
