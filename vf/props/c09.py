"""C09 - output history is never dropped while needed and never grows unboundedly."""
from datetime import timedelta

import numpy as np
from hypothesis import strategies as st

from .. import h_slot as hs
from ..runner import Part
from .c11 import reference as time_reference

PROP = "C09"
RULE = (
    "[part huge_backlog_enum: 1030-4100 publications retained at once, with limit 0 / 16 bytes / none, one consumer "
    "following the producer, one creeping through the backlog] "
    "operation sequences push(gap) / pull(consumer, fraction) on one real Output with 1-4 consumers: direct "
    "inputs, inputs behind pass-through adapters (also two inputs sharing one adapter instance), behind a fixed "
    "delay (also shared), and behind push-based adapters (previous/next/linear); every consumer's requests "
    "non-decreasing and within the published range; up to 60 (quick) / 250 (thorough) steps. Oracle = model "
    "with unlimited history (nearest publication / adapter definition on the complete series) for every pull, "
    "and after every event once all end points have pulled: len(Output.data) <= 1 + #publications newer than "
    "the slowest end point's last request. non-trivial = >=2 consumers whose last requests differ by more than "
    "2 publications at some point and >=20 publications. distinct = canonical JSON."
)
ASSUMPTIONS = [
    "publication value = publication time in minutes, so a delivered value identifies the publication",
    "a push-based adapter is an end point that pulls at every notification (its last request = newest publication)",
    "requests per consumer are non-decreasing (documented usage)",
]


def _build(case):
    import finam as fm

    g = fm.NoGrid(1)
    out = fm.Output(name="o", info=fm.Info(time=hs.T0, grid=g, units="m"))
    ends, inputs, chains, adapters = [], [], [], []
    for k, c in enumerate(case["consumers"]):
        sh = c.get("share")
        if sh is not None and sh < len(ends) and chains[sh] and all(a[0] in ("scale", "cb", "dfix") for a in chains[sh]):
            end, chain = ends[sh], chains[sh]
        else:
            chain = c["chain"]
            end = out
            for a in chain:
                ada = hs.make_adapter(a)
                adapters.append(ada)
                end = end >> ada
        inp = fm.Input(name=f"i{k}", info=fm.Info(time=hs.T0, grid=g, units="m"))
        end >> inp
        ends.append(end)
        chains.append(chain)
        inputs.append(inp)
    for inp in inputs:
        inp.ping()
    for inp in inputs:
        inp.exchange_info()
    _build.adapters = adapters  # buffers of push-based adapters legitimately keep publications alive
    return out, inputs, chains


def check(case, ctx):
    import shutil
    import tempfile

    spill = tempfile.mkdtemp(prefix="vf-c09-") if case.get("limit") is not None else None
    try:
        _check(case, ctx, spill)
    finally:
        if spill:
            shutil.rmtree(spill, ignore_errors=True)


def _check(case, ctx, spill):
    import gc
    import weakref

    import finam as fm

    out, inputs, chains = _build(case)
    if spill:
        out.memory_limit, out.memory_location = case["limit"], spill
        ctx.event("with-memory-limit")
    refs = []
    n = len(inputs)
    pubs = []  # complete history [(time, value)]
    last = [None] * n  # last request per consumer (consumer side)
    last_src = [None] * n  # last request time as seen by the output (None for push-based end points)
    push_based = [any(a[0] in hs.PUSH_BASED for a in ch) for ch in chains]
    spread = False
    t_now = hs.T0

    def shift(chain, t):
        for a in reversed(chain):
            if a[0] == "dfix":
                t = max(t - timedelta(minutes=a[1]), hs.T0)
        return t

    for op in case["ops"]:
        if op[0] == "push":
            t_now = t_now + timedelta(minutes=op[1]) if pubs else hs.T0
            try:
                out.push_data(np.full(3, float(hs.mins(t_now))), t_now)
            except (fm.FinamTimeError, fm.FinamNoDataError) as e:
                ctx.violation("push-failed", f"publication at {hs.mins(t_now)} failed (a push-based consumer could not read it): {e}")
                return
            pubs.append((t_now, float(hs.mins(t_now))))
        else:
            if not pubs:
                continue
            i = op[1] % n
            newest = pubs[-1][0]
            lo = last[i] if last[i] is not None else hs.T0
            t = lo + (newest - lo) * op[2] / op[3]
            t = max(lo, min(t, newest))
            chain = chains[i]
            if push_based[i]:
                kind = next(a[0] for a in chain if a[0] in hs.PUSH_BASED)
                exp, _ = time_reference(kind, 0.5, pubs, t)
                exp_ok = [exp]
            else:
                ts = shift(chain, t)
                d = [abs((p - ts).total_seconds()) for p, _ in pubs]
                md = min(d)
                exp_ok = [v for (p, v), dd in zip(pubs, d) if dd == md]
                last_src[i] = ts
            try:
                r = inputs[i].pull_data(t)
            except (fm.FinamTimeError, fm.FinamNoDataError) as e:
                ctx.violation("needed-data-dropped", f"consumer {i} (chain {chain}) request {hs.mins(t)} min refused though within the published range: {e}; last requests {[hs.mins(x) for x in last]}")
                return
            got = float(np.asarray(r.magnitude).ravel()[0])
            base = np.ma.getdata(r.magnitude)
            while isinstance(getattr(base, "base", None), np.ndarray):
                base = base.base
            try:
                refs.append(weakref.ref(base))
            except TypeError:
                pass
            del r, base
            if not any(abs(got - e) <= 1e-9 * max(1.0, abs(e)) for e in exp_ok):
                ctx.violation("differs-from-unlimited-history", f"consumer {i} (chain {chain}) request {hs.mins(t)} min -> {got}, unlimited history gives {exp_ok}")
                return
            last[i] = t
        # ---- bound on the retained history
        if pubs:
            ends_req = []
            complete = True
            for i in range(n):
                if push_based[i]:
                    ends_req.append(pubs[-1][0])
                elif last_src[i] is None:
                    complete = False
                else:
                    ends_req.append(last_src[i])
            if complete:
                t_min = min(ends_req)
                newer = sum(1 for p, _ in pubs if p > t_min)
                if len(out.data) > newer + 1:
                    ctx.violation("history-unbounded", f"{len(out.data)} entries retained, only {newer}+1 may be needed (slowest last request {hs.mins(t_min)} min, {len(pubs)} publications)")
                    return
                if len(set(i for i in range(n))) >= 2:
                    cnt = [sum(1 for p, _ in pubs if p <= x) for x in ends_req]
                    if max(cnt) - min(cnt) > 2:
                        spread = True
    # bounded memory: arrays the consumers dropped must die with the history (not only len(data) is bounded)
    retained = len(out.data) + sum(len(a.data) for a in _build.adapters if isinstance(getattr(a, "data", None), list))
    alive = len({id(o) for o in (w() for w in refs) if o is not None})
    if alive > retained + 3 + n:
        gc.collect()
        alive = len({id(o) for o in (w() for w in refs) if o is not None})
        if alive > retained + 3 + n:
            ctx.violation("delivered-arrays-stay-alive", f"{alive} of {len(refs)} delivered arrays are still referenced, only {retained} entries are retained (output and adapter buffers)")
            return
    out.finalize()
    ctx.event(f"consumers={n}")
    for ch in chains:
        ctx.event("chain=" + ("+".join(a[0] for a in ch) or "direct"))
    if any(c.get("share") is not None for c in case["consumers"]):
        ctx.event("shared-adapter")
    ctx.nontrivial(n >= 2 and spread and len(pubs) >= 20)


chain_st = st.sampled_from([
    [], [], [["scale", 1.0]], [["cb"]], [["scale", 1.0], ["cb"]], [["dfix", 0]], [["dfix", 45]], [["dfix", 120]],
    [["prev"]], [["lin"]], [["next"]], [["scale", 1.0], ["lin"]], [["prev"], ["scale", 1.0]], [["dfix", 30], ["scale", 1.0]],
])


def case_st(max_ops):
    @st.composite
    def build(draw):
        n = draw(st.integers(1, 4))
        cons = []
        for k in range(n):
            c = {"chain": draw(chain_st)}
            if k > 0 and draw(st.integers(0, 3)) == 0:
                c["share"] = draw(st.integers(0, k - 1))
            cons.append(c)
        ops = [["push", 0]]
        m = draw(st.integers(10, max_ops))
        for _ in range(m):
            if draw(st.integers(0, 9)) < 5:
                ops.append(["push", draw(st.sampled_from([10, 30, 60, 7, 10, 30, 1441]))])
            else:
                d = draw(st.sampled_from([1, 2, 3, 4]))
                # slow consumers: small fractions; fast: full
                ops.append(["pull", draw(st.integers(0, 3)), draw(st.integers(0, d)), d])
        return {"consumers": cons, "ops": ops, "limit": draw(st.sampled_from([None, None, None, 0, 16, 30, 60, 100]))}  # 24-byte payloads: 0-4 data sets stay in RAM

    return build()


@st.composite
def deep_case(draw):
    """a producer far ahead: dozens of publications retained, consumers creeping through them at unaligned times"""
    n = draw(st.integers(1, 3))
    cons = [{"chain": draw(st.sampled_from([[], [], [["scale", 1.0]], [["dfix", 45]], [["dfix", 7]]]))} for _ in range(n)]
    ops = [["push", 0]] + [["push", draw(st.sampled_from([10, 30, 60, 7]))] for _ in range(draw(st.integers(36, 80)))]
    for _ in range(draw(st.integers(10, 60))):
        if draw(st.integers(0, 9)) < 2:
            ops.append(["push", draw(st.sampled_from([10, 30, 7]))])
        else:
            d = draw(st.sampled_from([37, 64, 97, 131]))
            ops.append(["pull", draw(st.integers(0, 2)), draw(st.integers(1, 4)), d])
    return {"consumers": cons, "ops": ops, "limit": draw(st.sampled_from([None, None, 0, 16, 60, 100, 250]))}


def check_huge(case, ctx):
    """more than 2^10 / 2^11 retained (and, with a limit, spilled) publications at once: one consumer follows the
    producer publication by publication, the other one pulled once at the start and then creeps through the backlog.
    The compact case is expanded to an operation list for the ordinary check."""
    n = case["n"]
    ops = [["push", 0], ["pull", 0, 1, 1], ["pull", 1, 1, 1]]
    for _ in range(n):
        ops += [["push", 10], ["pull", 0, 1, 1]]
    for k in range(case["creep"]):
        ops.append(["pull", 1, 1, [97, 64, 131, 2][k % 4]])
    ops += [["pull", 1, 1, 1], ["push", 10], ["pull", 0, 1, 1], ["pull", 1, 1, 1]]
    ctx.event(f"backlog={n}")
    check({"consumers": [{"chain": case["chain0"]}, {"chain": case["chain1"]}], "ops": ops, "limit": case["limit"]}, ctx)


def enum_huge(tier):
    for n in ((1030, 2060) if tier == "quick" else (1023, 1024, 1025, 1030, 2049, 2060, 4100)):
        for limit in (0, 16, 100, None):
            for chain0, chain1 in (([], []), ([["scale", 1.0]], [["dfix", 45]])):
                if tier == "quick" and (n > 1030 and (limit != 0 or chain0) or limit == 100 and chain0):
                    continue
                yield {"n": n, "creep": 40, "limit": limit, "chain0": chain0, "chain1": chain1}


def parts():
    return [
        Part("machines", hs.with_epoch(check), strategy=hs.plus_epoch(case_st(60)), budget={"quick": 1200, "thorough": 16000}, fuzz={"thorough": 4000}),
        Part("long_runs", check, strategy=case_st(250), budget={"quick": 100, "thorough": 8000}, shrink_budget=120),
        Part("deep_history", hs.with_epoch(check), strategy=hs.plus_epoch(deep_case()), budget={"quick": 150, "thorough": 6000}, shrink_budget=120),
        Part("huge_backlog_enum", check_huge, enumerate=enum_huge, exhaustive=True, procs={"quick": 4, "thorough": 16}),
    ]
