"""C01 - the scheduler never updates a component before its input data exists."""
from hypothesis import strategies as st

from .. import h_sched as S
from .. import h_sched_gen as G
from .. import h_slot as hs
from ..runner import Part

PROP = "C01"
RULE = (
    "specs of real compositions: 2-5 time-stepped models (fixed or varying step sequences 1-6 min, start "
    "offsets), 0-n pull-based pass-through components, DAG links with chains of 0-3 adapters of every kind in "
    "every order (scale, callback, next/prev/linear/step, avg/sum, fixed/pull/push delays), rings with "
    "sufficient (also split) delays, all listing and link orders, end times on/off the step grids; every "
    "update event of the run is judged: no lagging upstream by the reference model of required source times, "
    "every pull at the announced time succeeds, every request reaching a source output is not beyond its "
    "newest publication, delivered values equal the expected-value model where it is defined. "
    "Part large_ratio_enum: one consumer update needs 1001-4097 consecutive producer updates. "
    "non-trivial = >=1 link whose producer and consumer step sequences differ and >=5 update events. "
    "distinct = canonical JSON of the spec."
)
ASSUMPTIONS = [
    "reference model of required source time per link: vf/h_sched.RefModel (independent of finam.schedule)",
    "excluded by construction and counted: delay adapters downstream of avg/sum (documented zero-length refusal), "
    "producer start offset combined with a delay upstream of a push-based adapter (known finding F10, owned by C06)",
    "delay-to-pull adapters are generated only on links whose consumer is a time-stepped model",
]


def classify(spec, ctx, trace):
    steps = {c["name"]: c["steps"] for c in spec["comps"] if c["kind"] == "model"}
    kinds = {c["name"]: c["kind"] for c in spec["comps"]}
    differ = False
    for l in spec["links"]:
        s, ch, d = l[0], l[2], l[3]
        if len(l) > 5:
            ctx.event("fan-out-at-adapter")
        names = [a[0] for a in ch]
        if any(n in hs.DELAYS for n in names):
            ctx.event("link-with-delay")
        push_idx = [i for i, n in enumerate(names) if n in hs.PUSH_BASED]
        del_idx = [i for i, n in enumerate(names) if n in hs.DELAYS]
        if push_idx and del_idx:
            if min(del_idx) < max(push_idx):
                ctx.event("delay-upstream-of-push-based")
            if max(del_idx) > min(push_idx):
                ctx.event("delay-downstream-of-push-based")
        if kinds[s] != "model" or kinds[d] != "model":
            ctx.event("link-via-pull-based")
        if kinds[s] == "model" and kinds[d] == "model" and steps[s] != steps[d]:
            differ = True
    if any(c.get("start") for c in spec["comps"]):
        ctx.event("start-offsets")
    for e in spec.get("excluded", []):
        ctx.event("excluded:" + e)
    n_upd = sum(1 for e in trace if e[0] == "update")
    ctx.event("update-events", n_upd)
    return differ and n_upd >= 5


def check(spec, ctx, want=("C01",), prop="C01"):
    outcome, msg, trace, _b = S.run(spec)
    viol, stats = S.monitor(spec, trace, want=want)
    differ = classify(spec, ctx, trace)
    # C02's rule additionally asks for an update reached through a dependency chain (not at the minimum time)
    ctx.nontrivial(differ and (prop != "C02" or stats["non_min_updates"] > 0))
    ctx.event(f"outcome={outcome}")
    ctx.event("non-min-updates", stats["non_min_updates"])
    for p, tag, m, _ev in viol:
        if p == prop:
            ctx.violation(tag, m + f" | spec links {spec['links']}")
            return
    if outcome == "HarnessBound":
        ctx.violation("unbounded-run", msg)
    elif outcome == "RecursionError":
        ctx.violation("recursion", msg)
    elif outcome in ("FinamTimeError", "FinamNoDataError") and prop == "C01":
        ctx.violation(f"run-fails:{outcome}", f"{msg} | links {spec['links']}")
    elif outcome == "FinamCircularCouplingError" and prop == "C01" and not spec.get("mode"):
        # acyclic composition reported as circular
        ctx.violation("false-circular", f"acyclic composition: {msg[:200]} | links {spec['links']}")
    elif outcome not in ("ok", "FinamCircularCouplingError", "FinamTimeError", "FinamNoDataError"):
        ctx.violation(f"unexpected:{outcome}", f"{msg} | links {spec['links']}")


spec_st = st.one_of(
    G.dag_spec(),
    G.dag_spec(),
    G.dag_spec(),
    G.ring_spec(modes=["suff", "suff_split", "suff_multi", "dpush"]),
)


spec_deep = st.one_of(
    spec_st,
    G.dag_spec(max_models=7, max_chain=4),
    G.ring_spec(modes=["suff", "suff_split", "suff_multi", "dpush"], max_n=7),
    G.chain_spec(),
)


def enum_large_ratio(tier):
    """one consumer update needs 1001 .. 2000 consecutive producer updates (minute data feeding a daily model): direct,
    behind pass-through / interpolating / delay adapters, through a pull-based component, two producers"""
    def model(name, steps, ins, start=0):
        return {"kind": "model", "name": name, "start": start, "steps": steps, "ins": ins, "outs": ["o"]}

    ratios = (1001, 1440) if tier == "quick" else (1000, 1001, 1024, 1025, 1440, 2000, 4097)
    for r in ratios:
        for chain in ([], [["lin"]], [["dfix", 7]], [["scale", 2.0], ["next"]]):
            for order in (["M0", "M1"], ["M1", "M0"]):
                yield {"comps": [model("M0", [1], []), model("M1", [r], ["i0"])], "links": [["M0", "o", chain, "M1", "i0"]],
                       "order": order, "end": r + 3, "excluded": ["info:large-step-ratio"], "tick_us": None}
        yield {"comps": [model("M0", [1], []), {"kind": "thru", "name": "T0"}, model("M1", [r], ["i0"])],
               "links": [["M0", "o", [["lin"]], "T0", "In"], ["T0", "Out", [["scale", 1.0]], "M1", "i0"]],
               "order": ["M1", "T0", "M0"], "end": r + 3, "excluded": ["info:large-step-ratio"], "tick_us": None}
        yield {"comps": [model("M0", [1], []), model("M2", [7], []), model("M1", [r, 5], ["i0", "i1"])],
               "links": [["M0", "o", [], "M1", "i0"], ["M2", "o", [["lin"]], "M1", "i1"]],
               "order": ["M1", "M2", "M0"], "end": r + 9, "excluded": ["info:large-step-ratio"], "tick_us": 333333}


def check_merger_delay(spec, ctx):
    """two producers with different start times feed a pull-based multi-input component (WeightedSum); a consumer
    without initial pull reads it through a fixed delay. While the delay is in its warm-up the request is clamped to the
    time the merger advertises (the start of one of its sources) and forwarded to *every* source: the driver has to bring
    all of them there first. Oracle: the run completes and every pull at the announced time succeeds."""
    outcome, msg, trace, _b = S.run(spec)
    ctx.nontrivial(True)
    ctx.event(f"outcome={outcome}")
    info = f" | starts {[c.get('start') for c in spec['comps'] if c['kind'] == 'model']} links {spec['links']} order {spec['order']}"
    if outcome != "ok":
        ctx.violation(f"run-fails:{outcome}", f"{(msg or '')[:200]}" + info)
        return
    for ev in trace:
        if ev[0] == "pull" and ev[4] != "ok":
            ctx.violation("pull-fails", f"{ev[1]}.{ev[2]} pull at {ev[3]} failed: {ev[5]}" + info)
            return


def enum_merger_delay(tier):
    def m(n, start, ins, **k):
        return dict({"kind": "model", "name": n, "start": start, "steps": [1], "ins": ins, "outs": ["o"], "units": ""}, **k)

    import itertools

    orders = [["C0", "W", "P0", "P1"], ["P0", "P1", "W", "C0"], ["P1", "C0", "W", "P0"], ["W", "P0", "C0", "P1"]]
    for off, d, order, first, nopull in itertools.product((1, 3, 10), (2, 5), orders, ("A", "B"), (True, False)):
        comps = [m("P0", 0, []), m("P1", off, []), {"kind": "wsum", "name": "W", "inputs": ["A", "B"] if first == "A" else ["B", "A"]},
                 m("C0", 0, ["i0"], no_pull=["i0"] if nopull else [])]
        links = [["P0", "o", [], "W", "A"], ["P0", "o", [], "W", "A_weight"], ["P0", "o", [], "W", "B_weight"], ["P1", "o", [], "W", "B"],
                 ["W", "WeightedSum", [["dfix", d]], "C0", "i0"]]
        yield {"comps": comps, "links": links, "order": order, "end": off + 8, "excluded": ["info:merger-behind-delay"], "tick_us": None, "t0": None}


def parts():
    return [
        Part("merger_delay_enum", check_merger_delay, enumerate=enum_merger_delay, exhaustive=True),
        Part("compositions", check, strategy=spec_st, strategy_thorough=spec_deep, budget={"quick": 1600, "thorough": 100000}, fuzz={"thorough": 6000}),
        Part("large_ratio_enum", check, enumerate=enum_large_ratio, exhaustive=True),
    ]
