"""C12 - time integration adapters conserve the integral."""
from datetime import timedelta
from fractions import Fraction as F

import numpy as np
from hypothesis import strategies as st

from .. import h_slot as hs
from ..runner import Part

PROP = "C12"
RULE = (
    "publication series with irregular integer-minute gaps and small dyadic values consumed by SumOverTime "
    "(per_time True/False) or AvgOverTime with step in {None(linear),0,.25,.5,1} through a real "
    "Output>>adapter>>Input chain; consumer pull times partition the period finer/coarser/incommensurably "
    "(pushes and pulls interleaved so the buffer is cleared while integrating). Oracle = exact rational "
    "integration of the linear/step interpolant over [p0,p1] on the complete history; plus totals of two "
    "different partitions of the same history agree, averages lie within the contributing range, units are "
    "input units x s reduced. non-trivial = some pull interval partially covers >=2 source intervals at both "
    "ends. distinct = canonical JSON."
)
ASSUMPTIONS = [
    "first pull happens at the first publication time (as connect does); later pulls strictly increasing",
    "rational arithmetic (fractions.Fraction) is exact; finam results compared with rtol 1e-9 relative to the magnitude of the published values (which are scaled by 10^k, k in {-12,-9,-6,0,6}); no absolute floor",
    "expected reduced unit strings for the three source units are written by hand",
]

UNITS_OUT = {"m/s": ("m", F(1)), "mm/d": ("mm", F(1, 86400)), "m": ("m s", F(1))}
# per_time: result magnitude = (integral of value over seconds) * factor, labelled with the reduced unit


def interp_integral(pubs, a, b, step):
    """exact integral over [a,b] (minutes) of the interpolant of pubs [(t_min, value Fraction)]; value*minutes"""
    total = F(0)
    for (t0, v0), (t1, v1) in zip(pubs, pubs[1:]):
        lo, hi = max(a, t0), min(b, t1)
        if hi <= lo:
            continue
        L = t1 - t0
        if step is None:
            f = lambda x: v0 + (v1 - v0) * F(x - t0, 1) / L  # noqa: E731
            total += (f(lo) + f(hi)) / 2 * (hi - lo)
        else:
            ts = t0 + step * L  # switch time: old value up to and including ts
            old_len = max(F(0), min(hi, ts) - lo)
            new_len = (hi - lo) - old_len
            total += v0 * old_len + v1 * new_len
    return total


def weights_sum(pubs, a, b, step):
    """per_time=False: sum over source intervals of interval-fraction weights times values"""
    total = F(0)
    for (t0, v0), (t1, v1) in zip(pubs, pubs[1:]):
        lo, hi = max(a, t0), min(b, t1)
        if hi <= lo:
            continue
        L = F(t1 - t0)
        if step is None:
            f = lambda x: v0 + (v1 - v0) * F(x - t0, 1) / L  # noqa: E731
            total += (f(lo) + f(hi)) / 2 * (hi - lo) / L
        else:
            ts = t0 + step * L
            old_len = max(F(0), min(hi, ts) - lo)
            total += (v0 * old_len + v1 * ((hi - lo) - old_len)) / L
    return total


def contributing_range(pubs, a, b, step):
    vals = []
    for (t0, v0), (t1, v1) in zip(pubs, pubs[1:]):
        if min(b, t1) > max(a, t0):
            vals += [v0, v1]
    return (min(vals), max(vals)) if vals else None


def run(case, pulls, ctx, tag=""):
    """drive one chain with the given pull times; returns list of (p0,p1,result float) or None on violation"""
    import finam as fm
    from finam.data import tools

    kind, step, per_time, unit = case["kind"], case["step"], case["per_time"], case["unit"]
    # numeric scale of the published values (rates in SI units are ~1e-9): every tolerance is relative to it
    vscale = F(10) ** int(case.get("vexp", 0))
    floor = float(vscale)
    stepF = None if step is None else F(step).limit_denominator(1000)
    spec = ["avg", step] if kind == "avg" else ["sum", step, per_time]
    g = fm.NoGrid()
    link = hs.Link(fm.Info(time=hs.T0, grid=g, units=unit), [fm.Info(time=hs.T0, grid=g, units=None)], chain=[spec])
    link.connect()
    inp = link.inputs[0]
    # expected output units
    if kind == "sum" and per_time:
        exp_unit, ufac = UNITS_OUT[unit]
    else:
        exp_unit, ufac = unit, None
    if inp.info.units != tools.UNITS.Unit(exp_unit):
        ctx.violation("units-info", f"{kind}(per_time={per_time}) on {unit!r}: consumer info units {inp.info.units!s}, expected {exp_unit!r}")
        return None
    pubs = []  # (minute, Fraction) complete history
    src = list(case["pubs"])
    times = []
    acc = 0
    for gap, _v in src:
        times.append(acc)
        acc += gap
    ahead = case.get("ahead", 0)
    k = 0
    results = []
    prev = 0
    for p in pulls:
        # publish everything up to the request, then as many more as needed to cover it (+ 'ahead' extra)
        extra = ahead
        while k < len(src) and (times[k] <= p or pubs[-1][0] < p or extra > 0):
            if times[k] > p and pubs and pubs[-1][0] >= p:
                extra -= 1
            v = F(src[k][1], 4) * vscale
            link.out.push_data(float(v), hs.tm(times[k]))
            pubs.append((times[k], v))
            k += 1
        if not pubs or pubs[-1][0] < p:
            break
        try:
            r = inp.pull_data(hs.tm(p))
        except (fm.FinamTimeError, fm.FinamNoDataError, fm.FinamDataError) as e:
            ctx.violation(f"{kind}-refused{tag}", f"{kind} step={step} per_time={per_time}: pull at {p} min (prev {prev}) refused: {type(e).__name__}: {e}")
            return None
        if getattr(r, "magnitude", None) is None or np.asarray(r.magnitude).dtype.kind not in "fiu":
            ctx.violation(f"{kind}-value{tag}", f"{kind} step={step} per_time={per_time} unit={unit}: [{prev},{p}] min -> no numeric result ({r!r}); pubs {[(a, float(b)) for a, b in pubs][-6:]}")
            return None
        got = float(np.asarray(r.magnitude).ravel()[0])
        if r.units != tools.UNITS.Unit(exp_unit):
            ctx.violation("units-data", f"{kind}(per_time={per_time}) on {unit!r}: delivered units {r.units!s}, expected {exp_unit!r}")
            return None
        if p == 0:
            # initial pull at the first publication
            v0 = pubs[0][1]
            exp = F(0) if (kind == "sum" and per_time) else v0
        else:
            if kind == "avg":
                exp = interp_integral(pubs, prev, p, stepF) / (p - prev)
            elif per_time:
                exp = interp_integral(pubs, prev, p, stepF) * 60 * ufac
            else:
                exp = weights_sum(pubs, prev, p, stepF)
        scale = max(floor, abs(float(exp)), max(abs(float(v)) for _t, v in pubs) * (60.0 * (p - prev) if (kind == "sum" and per_time) else 1.0) * (float(ufac) if ufac else 1.0))
        if abs(got - float(exp)) > 1e-9 * scale:
            ctx.violation(f"{kind}-value{tag}", f"{kind} step={step} per_time={per_time} unit={unit}: [{prev},{p}] min -> {got!r}, exact {float(exp)!r}; pubs {[(a, float(b)) for a, b in pubs]}")
            return None
        if kind == "avg" and p > 0:
            rng = contributing_range(pubs, prev, p, stepF)
            if rng and not (float(rng[0]) - 1e-9 * scale <= got <= float(rng[1]) + 1e-9 * scale):
                ctx.violation("avg-out-of-range", f"average {got} outside contributing range {rng}")
                return None
        results.append((prev, p, got))
        prev = p
    link.finalize()
    return results, pubs


def check(case, ctx):
    kind, step, per_time = case["kind"], case["step"], case["per_time"]
    ctx.event(f"{kind}:step={step}:per_time={per_time if kind == 'sum' else '-'}")
    res = run(case, case["pulls"], ctx)
    if res is None:
        return
    results, pubs = res
    # non-trivial: a pull interval covering >= 2 source intervals partially at both ends
    ptimes = [t for t, _ in pubs]
    nt = False
    for a, b, _ in results:
        if b > a:
            inner = [t for t in ptimes if a < t < b]
            if len(inner) >= 1 and a not in ptimes and b not in ptimes:
                nt = True
    ctx.nontrivial(nt)
    # metamorphic: a second partition of the same period gives the same total
    if kind == "sum" and len(results) >= 2 and case.get("pulls2"):
        end = results[-1][1]
        p2 = sorted({p for p in case["pulls2"] if 0 < p < end} | {0, end})
        res2 = run(case, p2, ctx, tag="-partition2")
        if res2 is None:
            return
        tot1 = sum(r for a, b, r in results if b > 0)
        tot2 = sum(r for a, b, r in res2[0] if b > 0)
        scale = max(float(F(10) ** int(case.get("vexp", 0))), abs(tot1), sum(abs(r) for _a, _b, r in results))
        if abs(tot1 - tot2) > 1e-9 * scale:
            ctx.violation("sum-partition-dependent", f"totals over [0,{end}] differ between partitions: {tot1} vs {tot2}")
        ctx.event("two-partitions-compared")


@st.composite
def case_st(draw):
    n = draw(st.integers(2, 9))
    pubs = [[draw(st.one_of(st.integers(1, 240), st.integers(1, 240), st.sampled_from([1440, 2881]))), draw(st.integers(-40, 40))] for _ in range(n)]
    end = sum(g for g, _ in pubs[:-1])
    kind = draw(st.sampled_from(["sum", "sum", "avg"]))
    step = draw(st.sampled_from([None, 0.0, 0.25, 0.5, 1.0]))
    style = draw(st.sampled_from(["fine", "coarse", "free"]))
    if style == "fine":
        k = draw(st.integers(2, 7))
        pulls = sorted({0} | {draw(st.integers(1, end)) for _ in range(draw(st.integers(4, 14)))}) if end >= 1 else [0]
        pulls = sorted(set(pulls) | {min(end, max(1, end // k))})
    elif style == "coarse":
        pulls = sorted({0} | {draw(st.integers(max(1, end // 2), end)) for _ in range(draw(st.integers(1, 3)))})
    else:
        pulls = sorted({0} | {draw(st.integers(1, end)) for _ in range(draw(st.integers(1, 8)))})
    pulls2 = sorted({draw(st.integers(1, end)) for _ in range(draw(st.integers(0, 6)))})
    return {
        "kind": kind,
        "step": step,
        "per_time": draw(st.booleans()) if kind == "sum" else True,
        "unit": draw(st.sampled_from(["m/s", "mm/d", "m"])),
        "pubs": pubs,
        "pulls": pulls,
        "pulls2": pulls2,
        "ahead": draw(st.integers(0, 3)),
        "vexp": draw(st.sampled_from([0, 0, 0, -9, -12, -6, 6])),
    }


@st.composite
def long_case(draw):
    """long irregular series consumed by one or a few coarse pulls (dozens to hundreds of buffered publications per pull)"""
    n = draw(st.one_of(st.integers(30, 90), st.integers(120, 300)))  # more than 2^7 / 2^8 source intervals in one pull
    pubs = [[draw(st.sampled_from([1, 5, 10, 10, 60, 180])), draw(st.integers(-20, 20))] for _ in range(n)]
    end = sum(g for g, _ in pubs[:-1])
    k = draw(st.integers(1, 3))
    pulls = sorted({0, end} | {draw(st.integers(1, end)) for _ in range(k - 1)})
    kind = draw(st.sampled_from(["sum", "avg"]))
    return {
        "kind": kind,
        "step": draw(st.sampled_from([None, None, 0.0, 0.5, 1.0])),
        "per_time": draw(st.booleans()) if kind == "sum" else True,
        "unit": draw(st.sampled_from(["m/s", "mm/d", "m"])),
        "pubs": pubs,
        "pulls": pulls,
        "pulls2": sorted({draw(st.integers(1, end)) for _ in range(draw(st.integers(3, 12)))}),
        "ahead": n,  # the producer runs far ahead: everything is buffered before the consumer pulls
        "vexp": draw(st.sampled_from([0, 0, -9, 6])),
    }


def parts():
    return [
        Part("histories", hs.with_epoch(check), strategy=hs.plus_epoch(case_st()), budget={"quick": 2000, "thorough": 60000}),
        Part("long_series", hs.with_epoch(check), strategy=hs.plus_epoch(long_case()), budget={"quick": 120, "thorough": 4000}, shrink_budget=100),
    ]
