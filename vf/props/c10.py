"""C10 - spilling data to disk is invisible and leaves no files behind."""
import gc
import os
import shutil
import tempfile
import weakref
from datetime import timedelta

import numpy as np
from hypothesis import strategies as st

from .. import h_slot as hs
from ..runner import HarnessError, Part

PROP = "C10"
RULE = (
    "[spill locations also carry names with glob/regex/shell metacharacters, blanks, non-ASCII letters and nesting] "
    "differential: the same publish/pull history is run on a real Output >> [adapter] >> Input chain without "
    "memory limit and with a limit drawn relative to the payload size b (0, b-1, b, 1.5b, 2b, 3b), for every "
    "buffering slot kind (plain output, next, prev, linear, step, avg, sum per-time / absolute) and payload "
    "kind (plain, masked with fixed mask, masked flexible); the slot-kind x payload x limit product is "
    "enumerated completely with 4 fixed histories each and histories are also drawn by Hypothesis. Oracle: "
    "identical (time, values, mask, units) series; every file appears below the configured location only; "
    "location empty after finalize. A composition-level part repeats this through fm.Composition. static_enum: a static "
    "output (one publication without time) x payload kind x limit x optional pass-through adapter x 1-3 consumers with 0-4 "
    "pulls each: every pull equals the publication, nothing outside the location, nothing left after finalize. "
    "non-trivial = at least one entry spilled and one kept in RAM in the same run, or limit 0. distinct = JSON."
)
ASSUMPTIONS = [
    "the unlimited run of the same finam tree is the reference (differential); C08/C11/C12 decide its correctness",
    "spilled/in-RAM state is observed through the public attribute .data of outputs and adapters",
    "the process working directory is a scratch directory during a case so that stray files are seen",
]

KINDS = {
    "out": [],
    "next": [["next"]],
    "prev": [["prev"]],
    "lin": [["lin"]],
    "step": [["step", 0.5]],
    "step0": [["step", 0.0]],
    "avg": [["avg", None]],
    "avgstep": [["avg", 0.5]],
    "sum": [["sum", 0.0, True]],
    "sumabs": [["sum", 0.0, False]],
    "sumlin": [["sum", None, True]],
    "scale+lin": [["scale", 1.0], ["lin"]],
    "stack": [["stack"]],
}
PAYLOADS = ["plain", "fixedmask", "flexmask", "flexmask0"]
LIMITS = ["0", "b-1", "b", "1.5b", "2b", "3b"]
N = 6  # payload entries -> b = 48 bytes


def _limit(name, n=None):
    b = 8 * (n or N)
    return {"0": 0, "b-1": b - 1, "b": b, "1.5b": b + b // 2, "2b": 2 * b, "3b": 3 * b}[name]


def _flex_payload(base, k, pk):
    """time-varying mask; kind flexmask0 has an empty mask at every second publication"""
    n = len(base)
    m = (np.arange(n) + k) % 4 == 0
    if pk == "flexmask0" and k % 2 == 0:
        m = np.zeros(n, bool)
    return np.ma.array(base, mask=m)


def _run(case, limit, loc, ctx):
    """returns (series, stats) or raises; series = list of (minute, values, mask, units str)"""
    import finam as fm

    chain = KINDS[case["kind"]]
    pk = case["payload"]
    n = case.get("n", N)
    if pk == "plain" and case["kind"] != "stack":
        g = fm.NoGrid(1)
        pmask = fm.Mask.FLEX
    elif pk == "plain":
        # StackTime delivers several time entries, which finam supports for gridded data only
        g = fm.UniformGrid((n + 1,))
        pmask = fm.Mask.FLEX
    else:
        g = fm.UniformGrid((n + 1,))
        fixed = np.arange(n) % 3 == 1
        pmask = fixed if pk == "fixedmask" else fm.Mask.FLEX
    link = hs.Link(
        fm.Info(time=hs.T0, grid=g, units="mm/d", mask=pmask),
        [fm.Info(time=hs.T0, grid=g, units=None)],
        chain=chain,
        mem_limit=limit,
        mem_loc=loc,
    )
    link.connect()
    inp = link.inputs[0]
    slots = [link.out] + link.adapters
    series = []
    refs = []  # weak references to the arrays handed to the consumer (bounded memory: they must die with the history)
    stats = {"spilled": 0, "ram": 0, "stray": None, "leftover": None, "alive": 0, "retained": 0, "pulls": 0}
    pubs = 0
    t_now = hs.T0
    last = None
    for op in case["ops"]:
        if op[0] == "push":
            t_now = t_now + timedelta(minutes=op[1]) if pubs else hs.T0
            base = np.arange(n, dtype=float) * 0.25 + float(op[2]) + pubs
            if pk == "plain":
                payload = base
            elif pk == "fixedmask":
                payload = np.ma.array(base, mask=fixed)
            else:
                payload = _flex_payload(base, pubs, pk)
            link.out.push_data(payload, t_now)
            pubs += 1
        else:
            if not pubs:
                continue
            if last is None:
                t = hs.T0
            else:
                t = last + (t_now - last) * op[1] / op[2]
                if t <= last:
                    continue
            r = inp.pull_data(t)
            m = r.magnitude
            series.append((hs.mins(t), np.ma.getdata(m).copy(), np.ma.getmaskarray(m).copy(), str(r.units), bool(np.ma.isMaskedArray(m))))
            base = np.ma.getdata(m)
            while isinstance(getattr(base, "base", None), np.ndarray):
                base = base.base
            try:
                refs.append(weakref.ref(base))
            except TypeError:
                pass
            del r, m, base
            stats["pulls"] += 1
            last = t
        for s in slots:
            for _t, d in s.data:
                if isinstance(d, str):
                    stats["spilled"] += 1
                    if loc is not None and os.path.dirname(os.path.abspath(d)) != os.path.abspath(loc):
                        stats["stray"] = d
                else:
                    stats["ram"] += 1
        extra = [f for f in os.listdir(".")]
        if extra:
            stats["stray"] = extra[0]
    stats["retained"] = sum(len(s.data) for s in slots)
    stats["alive"] = len({id(o) for o in (w() for w in refs) if o is not None})
    if stats["alive"] > stats["retained"] + 3:
        gc.collect()  # reference cycles are no leak: count again after a collection
        stats["alive"] = len({id(o) for o in (w() for w in refs) if o is not None})
    link.finalize()
    if loc is not None:
        stats["leftover"] = sorted(os.listdir(loc))
    return series, stats


def check(case, ctx):
    import finam as fm

    kind, pk, lim = case["kind"], case["payload"], case["limit"]
    ctx.event(f"{kind}|{pk}")
    ctx.event(f"limit={lim}")
    root = tempfile.mkdtemp(prefix="vf-c10-")
    old = os.getcwd()
    try:
        cwd = os.path.join(root, "cwd")
        loc = os.path.join(root, case.get("locname", "spill"))
        os.makedirs(cwd)
        os.makedirs(loc)
        if case.get("locname", "spill") != "spill":
            ctx.event("location-name-with-special-characters")
        os.chdir(cwd)
        ref, _ = _run(case, None, None, ctx)
        try:
            got, stats = _run(case, _limit(lim, case.get("n")), loc, ctx)
        except (fm.FinamDataError, fm.FinamTimeError, fm.FinamNoDataError, NotImplementedError, TypeError, ValueError, OSError) as e:
            import pint

            ctx.violation(f"limited-run-fails|{kind}|{pk}|{type(e).__name__}",
                          f"{kind}/{pk} with memory limit {lim} fails although the unlimited run succeeds: {type(e).__name__}: {str(e)[:200]}")
            return
        except Exception as e:  # pylint: disable=broad-except
            if type(e).__module__.startswith("pint"):
                ctx.violation(f"limited-run-fails|{kind}|{pk}|{type(e).__name__}",
                              f"{kind}/{pk} with memory limit {lim} fails although the unlimited run succeeds: {type(e).__name__}: {str(e)[:200]}")
                return
            raise
    finally:
        os.chdir(old)
        shutil.rmtree(root, ignore_errors=True)
    ctx.nontrivial((stats["spilled"] > 0 and stats["ram"] > 0) or (lim == "0" and stats["spilled"] > 0))
    if stats["spilled"]:
        ctx.event("spilled")
    if stats["spilled"] and stats["ram"]:
        ctx.event("mixed-ram-and-disk")
    if stats["alive"] > stats["retained"] + 3:
        ctx.violation(f"delivered-arrays-stay-alive|{'out' if kind == 'out' else 'adapter'}",
                      f"{kind}/{pk} limit {lim}: {stats['alive']} of {stats['pulls']} arrays handed to the consumer are still referenced "
                      f"although only {stats['retained']} entries are retained (memory grows with the run length)")
    if stats["stray"]:
        ctx.violation(f"file-outside-location|{kind}", f"file {stats['stray']} created outside the configured location")
    if stats["leftover"]:
        ctx.violation(f"files-left-after-finalize|{'out' if kind == 'out' else 'adapter'}",
                      f"{kind}/{pk} limit {lim}: {len(stats['leftover'])} spill file(s) remain after finalize: {stats['leftover'][:3]}")
    if len(ref) != len(got):
        ctx.violation(f"series-length|{kind}", f"{len(ref)} pulls without limit, {len(got)} with limit {lim}")
        return
    for (t1, v1, m1, u1, k1), (t2, v2, m2, u2, k2) in zip(ref, got):
        if k1 != k2:
            ctx.violation(f"masked-type-differs|{pk}", f"{kind}/{pk} limit {lim} at {t1} min: delivered {'MaskedArray' if k2 else 'plain ndarray'}, unlimited run delivers {'MaskedArray' if k1 else 'plain ndarray'}")
            return
        if u1 != u2:
            ctx.violation(f"units-differ|{kind}", f"{kind}/{pk} limit {lim} at {t1} min: units {u2!r} instead of {u1!r}")
            return
        if v1.shape != v2.shape or not np.array_equal(m1, m2):
            ctx.violation(f"mask-differs|{kind}|{pk}", f"{kind}/{pk} limit {lim} at {t1} min: mask/shape differs from the unlimited run")
            return
        if not np.array_equal(v1[~m1], v2[~m2]):
            ctx.violation(f"values-differ|{kind}|{pk}", f"{kind}/{pk} limit {lim} at {t1} min: {v2[~m2][:3]} instead of {v1[~m1][:3]}")
            return


FIXED_HISTORIES = [
    # single entry right after connect, then a normal run
    [["push", 0, 1], ["pull", 0, 1], ["push", 60, 2], ["pull", 1, 1], ["push", 60, 3], ["pull", 1, 2], ["pull", 1, 1]],
    # producer far ahead: several entries buffered before the consumer moves
    [["push", 0, 1], ["push", 30, 2], ["push", 30, 3], ["push", 30, 4], ["pull", 0, 1], ["pull", 1, 3], ["pull", 1, 2], ["pull", 1, 1]],
    # consumer finer than producer
    [["push", 0, 5], ["pull", 0, 1], ["push", 120, 1], ["pull", 1, 4], ["pull", 1, 3], ["pull", 1, 2], ["push", 120, 7], ["pull", 1, 1]],
    # long run, lock step
    [["push", 0, 0]] + [x for k in range(1, 9) for x in (["push", 45, k], ["pull", 1, 1])],
    # longer run with a consumer lagging two publications behind (memory must not grow with the run length)
    [["push", 0, 0], ["push", 30, 1], ["push", 30, 2], ["pull", 0, 1]] + [x for k in range(3, 27) for x in (["push", 30, k], ["pull", 1, 3])],
]


# directory names a user may pick for the spill location (glob / regex / shell metacharacters, blanks, non-ASCII, nesting)
LOCNAMES = ["spill", "scenario[1]", "with space", "ens [a-c]/member[07]/tmp", "x*y?", "\u00fcml\u00e4ut", "a.b/c+d", "{1,2}$HOME~"]


def enum_cases(tier):
    i = 0
    for kind in KINDS:
        for pk in PAYLOADS:
            for lim in LIMITS:
                for h in FIXED_HISTORIES:
                    i += 1
                    yield {"kind": kind, "payload": pk, "limit": lim, "ops": h, "locname": LOCNAMES[(i * 5) % len(LOCNAMES)] if i % 3 == 0 else "spill"}


BIG = 700_000  # 5.6 MB per publication: code paths that depend on the payload size


def enum_large(tier):
    h = [["push", 0, 1], ["pull", 0, 1], ["push", 60, 2], ["push", 60, 3], ["pull", 1, 2], ["pull", 1, 1]]
    kinds = ["out", "lin", "avg"] if tier == "quick" else ["out", "lin", "avg", "sum", "prev", "step"]
    for kind in kinds:
        for pk in ("plain", "fixedmask", "flexmask0"):
            for lim in ("0", "b"):
                yield {"kind": kind, "payload": pk, "limit": lim, "ops": h, "n": BIG}


@st.composite
def case_st(draw):
    ops = [["push", 0, draw(st.integers(0, 9))]]
    for _ in range(draw(st.integers(2, 30))):
        if draw(st.integers(0, 9)) < 5:
            ops.append(["push", draw(st.sampled_from([15, 30, 60, 100])), draw(st.integers(0, 9))])
        else:
            d = draw(st.sampled_from([1, 2, 3, 4]))
            ops.append(["pull", draw(st.integers(1, d)), d])
    return {
        "kind": draw(st.sampled_from(sorted(KINDS))),
        "payload": draw(st.sampled_from(PAYLOADS)),
        "limit": draw(st.sampled_from(LIMITS)),
        "ops": ops,
        "locname": draw(st.sampled_from(["spill", "spill"] + LOCNAMES)),
    }


# ------------------------------------------------------------------ composition level
def _mk_comp_classes():
    import finam as fm

    class Prod(fm.TimeComponent):
        def __init__(self, step, pk, own_limit, gridded=False):
            super().__init__()
            self._time = hs.T0
            self.step, self.pk, self.own_limit, self.k = step, pk, own_limit, 0
            self.gridded = gridded

        def _next_time(self):
            return self.time + timedelta(minutes=self.step)

        def _payload(self):
            base = np.arange(N, dtype=float) * 0.25 + self.k
            if self.pk == "plain":
                return base
            if self.pk == "fixedmask":
                return np.ma.array(base, mask=np.arange(N) % 3 == 1)
            return _flex_payload(base, self.k, self.pk)

        def _initialize(self):
            if self.pk == "plain" and not self.gridded:
                self.outputs.add(name="o", time=self.time, grid=fm.NoGrid(1), units="mm/d")
            elif self.pk == "plain":
                self.outputs.add(name="o", time=self.time, grid=fm.UniformGrid((N + 1,)), units="mm/d")
            else:
                mask = (np.arange(N) % 3 == 1) if self.pk == "fixedmask" else fm.Mask.FLEX
                self.outputs.add(name="o", time=self.time, grid=fm.UniformGrid((N + 1,)), units="mm/d", mask=mask)
            if self.own_limit is not None:
                self.outputs["o"].memory_limit = self.own_limit
            self.create_connector()

        def _connect(self, start_time):
            self.try_connect(start_time, push_data={"o": self._payload()})

        def _validate(self):
            pass

        def _update(self):
            self._time = self.next_time
            self.k += 1
            self.outputs["o"].push_data(self._payload(), self.time)

        def _finalize(self):
            pass

    class Cons(fm.TimeComponent):
        def __init__(self, step, pk, series, gridded=False):
            super().__init__()
            self._time = hs.T0
            self.step, self.pk, self.series = step, pk, series
            self.gridded = gridded

        def _next_time(self):
            return self.time + timedelta(minutes=self.step)

        def _initialize(self):
            g = fm.NoGrid(1) if (self.pk == "plain" and not self.gridded) else fm.UniformGrid((N + 1,))
            self.inputs.add(name="i", time=self.time, grid=g, units=None)
            self.create_connector(pull_data=["i"])

        def _rec(self, t, r):
            m = r.magnitude
            self.series.append((hs.mins(t), np.ma.getdata(m).copy(), np.ma.getmaskarray(m).copy(), str(r.units), bool(np.ma.isMaskedArray(m))))

        def _connect(self, start_time):
            self.try_connect(start_time)
            if self.status == fm.ComponentStatus.CONNECTED:
                self._rec(start_time, self.connector.in_data["i"])

        def _validate(self):
            pass

        def _update(self):
            t = self.next_time
            self._rec(t, self.inputs["i"].pull_data(t))
            self._time = t

        def _finalize(self):
            pass

    return Prod, Cons


_COMP = None


def _run_comp(case, limited, loc):
    import finam as fm

    global _COMP  # pylint: disable=global-statement
    if _COMP is None:
        _COMP = _mk_comp_classes()
    Prod, Cons = _COMP
    lim = _limit(case["limit"]) if limited else None
    where = case["where"]  # composition | adapter | output
    series = []
    gridded = case["kind"] == "stack"
    prod = Prod(case["pstep"], case["payload"], lim if (limited and where == "output") else None, gridded)
    cons = Cons(case["cstep"], case["payload"], series, gridded)
    kw = {"slot_memory_location": None}  # (the default location "temp" is created in the cwd on construction)
    if limited:
        kw = {"slot_memory_location": loc}
        if where == "composition":
            kw["slot_memory_limit"] = lim
    comp = fm.Composition([prod, cons], print_log=False, **kw)
    x = prod.outputs["o"]
    adas = []
    for a in KINDS[case["kind"]]:
        ada = hs.make_adapter(a)
        if limited and where == "adapter":
            ada.memory_limit = lim
        adas.append(ada)
        x = x >> ada
    x >> cons.inputs["i"]
    comp.run(end_time=hs.tm(case["end"]))
    return series, comp


def check_comp(case, ctx):
    import finam as fm

    kind, pk, lim, where = case["kind"], case["payload"], case["limit"], case["where"]
    ctx.event(f"{kind}|{pk}|{where}")
    root = tempfile.mkdtemp(prefix="vf-c10c-")
    old = os.getcwd()
    seen = {"stray": None, "max": 0}
    try:
        cwd, loc = os.path.join(root, "cwd"), os.path.join(root, case.get("locname", "spill"))
        os.makedirs(cwd)
        os.makedirs(os.path.dirname(loc), exist_ok=True)  # parents exist, the location itself is left to finam
        if case.get("locname", "spill") != "spill":
            ctx.event("location-name-with-special-characters")
        os.chdir(cwd)
        ref, _ = _run_comp(case, False, None)
        if os.listdir(cwd):
            ctx.violation("file-without-limit", f"files appear without any memory limit: {os.listdir(cwd)[:2]}")
            return
        # watch the directories while the limited run is going on: wrap os.remove/np.save is not needed -
        # spill files only disappear through eviction/finalize, so look after connect and count at the end
        import finam.sdk.output as fo

        real_pack = getattr(fo.Output, "_pack", None)
        if real_pack is None:
            raise HarnessError("Output._pack not found: the file watcher of the composition part needs updating")

        def watching_pack(self_, data):
            r = real_pack(self_, data)
            extra = os.listdir(cwd)
            if extra:
                seen["stray"] = extra[0]
            if os.path.isdir(loc):
                seen["max"] = max(seen["max"], len(os.listdir(loc)))
            return r

        fo.Output._pack = watching_pack
        try:
            got, _comp = _run_comp(case, True, loc)
        except (fm.FinamDataError, fm.FinamTimeError, fm.FinamNoDataError, NotImplementedError, TypeError, ValueError, OSError) as e:
            ctx.violation(f"limited-run-fails|{type(e).__name__}", f"composition {kind}/{pk} limit {lim} ({where}) fails although the unlimited run succeeds: {type(e).__name__}: {str(e)[:200]}")
            return
        finally:
            fo.Output._pack = real_pack
        left_cwd = os.listdir(cwd)
        left_loc = os.listdir(loc) if os.path.isdir(loc) else []
    finally:
        os.chdir(old)
        shutil.rmtree(root, ignore_errors=True)
    ctx.nontrivial(seen["max"] > 0)
    if seen["max"]:
        ctx.event("spilled")
    if seen["stray"] or left_cwd:
        ctx.violation(f"file-outside-location|{where}", f"composition {kind}/{pk} limit {lim} set on {where}: file {seen['stray'] or left_cwd[0]} created outside slot_memory_location")
        return
    if left_loc:
        ctx.violation("files-left-after-finalize|composition", f"{len(left_loc)} spill file(s) remain after the run: {left_loc[:3]}")
        return
    if len(ref) != len(got):
        ctx.violation("series-length|composition", f"{len(ref)} pulls without limit, {len(got)} with limit")
        return
    for (t1, v1, m1, u1, k1), (t2, v2, m2, u2, k2) in zip(ref, got):
        if (k1, u1) != (k2, u2) or v1.shape != v2.shape or not np.array_equal(m1, m2) or not np.array_equal(v1[~m1], v2[~m2]):
            ctx.violation(f"composition-differs|{kind}|{pk}", f"composition {kind}/{pk} limit {lim} ({where}) at {t1} min: delivery differs from the unlimited run")
            return


def enum_comp(tier):
    kinds = ["out", "lin", "prev", "avg", "sum"] if tier == "quick" else sorted(KINDS)
    for kind in kinds:
        for pk in PAYLOADS:
            for lim in (["0", "b", "2b"] if tier == "quick" else LIMITS):
                for where in ("composition", "adapter", "output"):
                    if where == "adapter" and not KINDS[kind]:
                        continue
                    for pstep, cstep in ((60, 60), (30, 90), (90, 40)):
                        yield {"kind": kind, "payload": pk, "limit": lim, "where": where, "pstep": pstep, "cstep": cstep, "end": 400,
                               "locname": LOCNAMES[(pstep + len(kind) + len(pk)) % len(LOCNAMES)] if where != "output" else "spill"}


comp_st = st.fixed_dictionaries({
    "kind": st.sampled_from(sorted(KINDS)),
    "payload": st.sampled_from(PAYLOADS),
    "limit": st.sampled_from(LIMITS),
    "where": st.sampled_from(["composition", "adapter", "output"]),
    "pstep": st.integers(10, 120),
    "cstep": st.integers(10, 120),
    "end": st.integers(50, 600),
    "locname": st.sampled_from(["spill", "spill"] + LOCNAMES),
})


# ------------------------------------------------------------------ static outputs (one data set, no time)
def check_static(case, ctx):
    """a static output (one publication without a time, e.g. a parameter field) behind an optional pass-through adapter,
    1-3 consumers, 0-4 pulls each, with a memory limit: every pull equals the publication, the file lies in the
    configured location while the output lives, and nothing remains after finalize."""
    import finam as fm

    pk, lim, n = case["payload"], case["limit"], case.get("n", N)
    g = fm.UniformGrid((n + 1,))
    fixed = np.arange(n) % 3 == 1
    base = np.arange(n, dtype=float) * 0.25 + 7.0
    payload = base if pk == "plain" else np.ma.array(base, mask=fixed if pk == "fixedmask" else (np.arange(n) % 4 == 0))
    root = tempfile.mkdtemp(prefix="vf-c10s-")
    old = os.getcwd()
    try:
        cwd, loc = os.path.join(root, "cwd"), os.path.join(root, case.get("locname", "spill"))
        os.makedirs(cwd)
        os.makedirs(loc)
        os.chdir(cwd)
        link = hs.Link(
            fm.Info(time=None, grid=g, units="mm/d", mask=fixed if pk == "fixedmask" else fm.Mask.FLEX),
            [fm.Info(time=None, grid=g, units=None) for _ in case["pulls"]],
            chain=[["scale", 1.0]] if case["adapter"] else [],
            static=True, mem_limit=_limit(lim, n), mem_loc=loc,
        )
        link.connect()
        try:
            link.out.push_data(payload, None)
            spilled = any(isinstance(d, str) for _t, d in link.out.data)
            ctx.nontrivial(spilled and sum(case["pulls"]) > 0)
            ctx.event("static-spilled" if spilled else "static-in-ram")
            for rnd in range(max(case["pulls"])):
                for k, inp in enumerate(link.inputs):
                    if rnd < case["pulls"][k]:
                        m = inp.pull_data(None).magnitude
                        keep = ~np.ma.getmaskarray(m)[0]
                        if pk != "plain" and not np.array_equal(np.ma.getmaskarray(m)[0], np.ma.getmaskarray(payload)):
                            ctx.violation("static-mask-differs", f"static/{pk} limit {lim}: pull {rnd} of consumer {k} has another mask than the publication")
                            return
                        if not np.array_equal(np.ma.getdata(m)[0][keep], base[keep]):
                            ctx.violation("static-values-differ", f"static/{pk} limit {lim}: pull {rnd} of consumer {k} differs from the publication")
                            return
                if os.listdir("."):
                    ctx.violation("file-outside-location|static", f"file {os.listdir('.')[0]} created outside the configured location")
                    return
        except (fm.FinamDataError, fm.FinamTimeError, fm.FinamNoDataError, NotImplementedError, TypeError, ValueError, OSError) as e:
            ctx.violation(f"limited-run-fails|static|{pk}|{type(e).__name__}", f"static/{pk} with memory limit {lim} fails: {type(e).__name__}: {str(e)[:200]}")
            return
        link.finalize()
        left = sorted(os.listdir(loc))
        if left:
            ctx.violation("files-left-after-finalize|static", f"static/{pk} limit {lim} pulls {case['pulls']}: {len(left)} spill file(s) remain after finalize: {left[:3]}")
    finally:
        os.chdir(old)
        shutil.rmtree(root, ignore_errors=True)


def enum_static(tier):
    i = 0
    for pk in ("plain", "fixedmask", "flexmask"):
        for lim in ("0", "b-1", "b", "2b"):
            for adapter in (False, True):
                for pulls in ([0], [1], [2], [4], [1, 1], [0, 2], [3, 1, 2]):
                    i += 1
                    yield {"payload": pk, "limit": lim, "adapter": adapter, "pulls": pulls, "locname": LOCNAMES[i % len(LOCNAMES)] if i % 3 == 0 else "spill"}
    for pk in ("plain", "fixedmask"):
        yield {"payload": pk, "limit": "0", "adapter": False, "pulls": [2, 1], "n": BIG}


def parts():
    return [
        Part("static_enum", check_static, enumerate=enum_static, exhaustive=True),
        Part("product_enum", check, enumerate=enum_cases, exhaustive=True),
        Part("histories", check, strategy=case_st(), budget={"quick": 600, "thorough": 24000}),
        Part("large_payload_enum", check, enumerate=enum_large, exhaustive=True),
        Part("composition_enum", check_comp, enumerate=enum_comp, exhaustive=True),
        Part("composition_gen", check_comp, strategy=comp_st, budget={"quick": 150, "thorough": 6000}),
    ]
