"""C19 - composition validation rejects exactly the unworkable topologies."""
import itertools
from datetime import timedelta

from hypothesis import strategies as st

from .. import h_slot as hs
from ..runner import Part

PROP = "C19"
RULE = (
    "link topologies over 1-3 components with 0-2 outputs (push / pull-type callback / static) and 0-2 inputs "
    "(pull / push-type callback / static), forests of links with chains of 0-4 adapters (pass-through, "
    "push-based+no-branch LinearTime, custom no-branch pass-through, fixed delay, delay-to-pull (no-branch), "
    "delay-to-push), fan-out at outputs and at every adapter position, unconnected inputs, components left out "
    "of the composition on either side; the space with two components, one chain of <=2 adapters and an optional "
    "second input branching at every position is enumerated completely, larger shapes are drawn by Hypothesis. "
    "Oracle = rule model written from the statement: reject <=> unconnected input | static input fed by "
    "non-static output | linked component missing | fan-out at/downstream of a no-branch adapter | needs_pull "
    "element followed downstream-to-upstream... (pull-only source followed by an element needing pushes); "
    "rejection must be FinamConnectError with every listed component still INITIALIZED; after a successful "
    "connect metadata['links'] == created links. non-trivial = >=1 adapter and (a fan-out or a pull-type "
    "source). distinct = canonical JSON of the topology."
)
ASSUMPTIONS = [
    "rule model in vf/props/c19.py written from the property statement / validation docs, not from schedule.py",
    "failures after validation passed (metadata, circular coupling ...) are not this property's business",
]

NOBRANCH = {"lin", "nb", "dpull"}
NEEDPUSH = {"lin"}
ADAPTERS = ["scale", "lin", "nb", "dfix", "dpull", "dpush"]

_CLS = None


def _classes():
    global _CLS  # pylint: disable=global-statement
    if _CLS is not None:
        return _CLS
    import finam as fm

    class NB(fm.Adapter, fm.NoBranchAdapter):
        def _get_data(self, time, target):
            return self.pull_data(time, target)

    class Gen(fm.TimeComponent):
        def __init__(self, name, outs, ins):
            super().__init__()
            self._name, self.o, self.i = name, outs, ins
            self._time = hs.T0

        def _next_time(self):
            return self.time + timedelta(days=1)

        def _initialize(self):
            def info():
                return fm.Info(time=hs.T0, grid=fm.NoGrid())

            for n, kind in self.o.items():
                if kind == "push":
                    self.outputs.add(name=n, info=info())
                elif kind == "static":
                    self.outputs.add(name=n, info=info(), static=True)
                else:
                    self.outputs.add(fm.CallbackOutput(callback=lambda c, t: 1.0, name=n, info=info()))
            for n, kind in self.i.items():
                if kind == "pull":
                    self.inputs.add(name=n, info=info())
                elif kind == "static":
                    self.inputs.add(name=n, info=info(), static=True)
                else:
                    self.inputs.add(fm.CallbackInput(callback=lambda c, t: None, name=n, info=info()))
            self.create_connector()

        def _connect(self, start_time):
            self.try_connect(start_time, push_data={n: 1.0 for n, k in self.o.items() if k != "cb"})

        def _validate(self):
            pass

        def _update(self):
            self._time = self.next_time

        def _finalize(self):
            pass

    _CLS = (NB, Gen)
    return _CLS


def mk_ad(k):
    import finam as fm

    NB, _ = _classes()
    return {
        "scale": lambda: fm.adapters.Scale(1.0),
        "lin": fm.adapters.LinearTime,
        "nb": NB,
        "dfix": lambda: fm.adapters.DelayFixed(timedelta(days=1)),
        "dpull": fm.adapters.DelayToPull,
        "dpush": fm.adapters.DelayToPush,
    }[k]()


def build(spec):
    import finam as fm

    _, Gen = _classes()
    comps = {c["name"]: Gen(c["name"], c["outs"], c["ins"]) for c in spec["comps"]}
    listed = [comps[n] for n in spec["listed"]]
    for c in comps.values():
        if c.name not in spec["listed"]:
            c.initialize()
    comp = fm.Composition(listed, print_log=False)
    nodes = {nid: mk_ad(k) for nid, k in spec["adapters"].items()}

    def ep(x):
        if x[0] == "a":
            return nodes[x[1]]
        if x[0] == "o":
            return comps[x[1]].outputs[x[2]]
        return comps[x[1]].inputs[x[2]]

    for a, b in spec["edges"]:
        ep(a) >> ep(b)
    return comp, comps, nodes


def expected(spec):
    """set of rejection reasons by the rule model"""
    tgt, src = {}, {}
    for a, b in spec["edges"]:
        tgt.setdefault(tuple(a), []).append(tuple(b))
        src[tuple(b)] = tuple(a)
    kinds_o = {(c["name"], n): k for c in spec["comps"] for n, k in c["outs"].items()}
    kinds_i = {(c["name"], n): k for c in spec["comps"] for n, k in c["ins"].items()}
    listed = set(spec["listed"])
    reasons = set()
    for c in spec["comps"]:
        if c["name"] not in listed:
            continue
        for n, k in c["ins"].items():
            node = ("i", c["name"], n)
            chain = [node]
            while node in src:
                node = src[node]
                chain.append(node)
            if chain[-1][0] != "o":
                reasons.add("unconnected")
                continue
            ko = kinds_o[(chain[-1][1], chain[-1][2])]
            if k == "static" and ko != "static":
                reasons.add("static")
            if chain[-1][1] not in listed:
                reasons.add("missing")
            seen_pull = False
            for x in reversed(chain):  # from the source output down to the input
                needs_push = (
                    (x[0] == "o" and kinds_o[(x[1], x[2])] in ("push", "static"))
                    or (x[0] == "i" and kinds_i[(x[1], x[2])] == "cb")
                    or (x[0] == "a" and spec["adapters"][x[1]] in NEEDPUSH)
                )
                needs_pull = (x[0] == "o" and kinds_o[(x[1], x[2])] == "cb") or (
                    x[0] == "i" and kinds_i[(x[1], x[2])] in ("pull", "static")
                )
                if seen_pull and needs_push:
                    reasons.add("dead")
                if needs_pull:
                    seen_pull = True
        for n in c["outs"]:
            stack = [(("o", c["name"], n), False)]
            while stack:
                node, nb = stack.pop()
                nb = nb or (node[0] == "a" and spec["adapters"][node[1]] in NOBRANCH)
                ts = tgt.get(node, [])
                if nb and len(ts) > 1:
                    reasons.add("branch")
                for t in ts:
                    if t[0] == "a":
                        stack.append((t, nb))
                    elif t[1] not in listed:
                        reasons.add("missing")
    return reasons


def check(spec, ctx):
    import finam as fm

    if spec.get("later"):
        return check_repair(spec, ctx)
    exp = expected(spec)
    comp, comps, nodes = build(spec)
    _judge(spec, ctx, exp, comp, comps, nodes)


def check_repair(spec, ctx):
    """history: a first connect() is rejected by validation (nothing exchanged), the coupling script repairs the
    topology by adding the missing links (possibly new adapters between existing ones) and connects again"""
    import finam as fm

    first = dict(spec, edges=[e for e in spec["edges"] if e not in spec["later"]])
    exp1 = expected(first)
    comp, comps, nodes = build(first)
    try:
        comp.connect()
        got1 = "ok"
    except fm.FinamConnectError:
        got1 = "reject"
    except Exception as e:  # pylint: disable=broad-except
        got1 = "other:" + type(e).__name__
    listed = [comps[n] for n in spec["listed"]]
    ctx.event("repair-history")
    if not exp1 or got1 != "reject" or not all(c.status == fm.ComponentStatus.INITIALIZED for c in listed):
        if bool(exp1) != (got1 == "reject"):
            ctx.violation("repair-first-verdict", f"first connect -> {got1}, model rejects for {sorted(exp1)} | topology {first}")
        return  # first attempt got through: no retry possible

    def ep(x):
        if x[0] == "a":
            return nodes[x[1]]
        if x[0] == "o":
            return comps[x[1]].outputs[x[2]]
        return comps[x[1]].inputs[x[2]]

    for a, b in spec["later"]:
        ep(a) >> ep(b)
    ctx.event("second-connect")
    _judge(spec, ctx, expected(spec), comp, comps, nodes, tag="after-repair:")


def _judge(spec, ctx, exp, comp, comps, nodes, tag=""):
    import finam as fm
    try:
        comp.connect()
        got = "ok"
    except fm.FinamConnectError as e:
        got = "reject"
        msg = str(e)
    except Exception as e:  # pylint: disable=broad-except
        # whatever happens after validation let the topology through is not judged here
        got = "other:" + type(e).__name__
        ctx.event("after-validation:" + type(e).__name__)
    listed = [comps[n] for n in spec["listed"]]
    untouched = all(c.status == fm.ComponentStatus.INITIALIZED for c in listed)
    for r in sorted(exp) or ["valid"]:
        ctx.event(f"reason={r}")
    if len(exp) > 1:
        ctx.event("several-reasons")
    fan = any(len([1 for a, _b in spec["edges"] if a == x]) > 1 for x, _y in spec["edges"])
    pull_src = any(k == "cb" for c in spec["comps"] for k in c["outs"].values())
    ctx.nontrivial(bool(spec["adapters"]) and (fan or pull_src))
    info = f" | topology {spec}"
    if exp:
        if got != "reject":
            ctx.violation(tag + "unworkable-accepted:" + "+".join(sorted(exp)), f"model rejects for {sorted(exp)} but connect() -> {got}" + info)
        elif not untouched:
            ctx.violation(tag + "rejected-after-exchange", f"FinamConnectError raised after components were pinged/connected: {[c.status.name for c in listed]}" + info)
        return
    if got == "reject":
        ctx.violation(tag + "workable-rejected", f"valid topology rejected: {msg[:200]}" + info)
        return
    if untouched and listed:
        ctx.violation("validation-passed-nothing-happened", f"connect -> {got} but every component is still INITIALIZED" + info)
        return
    if got == "ok":
        md = comp.metadata["links"]
        key = {}
        for c in comps.values():
            for n, o in c.outputs.items():
                key[id(o)] = ("o", c.name, n)
            for n, i in c.inputs.items():
                key[id(i)] = ("i", c.name, n)

        def from_key(d):
            if "adapter" in d:
                nid = next(k for k, a in nodes.items() if f"{a.name}@{id(a)}" == d["adapter"])
                return ("a", nid)
            cname = d["component"].split("@")[0]
            return ("o", cname, d["output"]) if "output" in d else ("i", cname, d["input"])

        got_links = sorted((from_key(l["from"]), from_key(l["to"])) for l in md)
        # links of components that are not part of the composition are invisible to it
        reach = {("o", c, n) for c in spec["listed"] for n in next(x for x in spec["comps"] if x["name"] == c)["outs"]}
        changed = True
        while changed:
            changed = False
            for a, b in spec["edges"]:
                if tuple(a) in reach and tuple(b) not in reach:
                    reach.add(tuple(b))
                    changed = True
        want = sorted((tuple(a), tuple(b)) for a, b in spec["edges"] if tuple(a) in reach)
        if got_links != want:
            ctx.violation(tag + "metadata-links", f"reported links {got_links} != created links {want}")
        ctx.event("links-compared")


# ------------------------------------------------------------------ generators
@st.composite
def topo(draw, max_comps=3, chains=(0, 0, 1, 1, 2, 3, 4), repair=True):
    nc = draw(st.integers(1, max_comps))
    comps = []
    for i in range(nc):
        comps.append({
            "name": f"C{i}",
            "outs": {f"o{j}": draw(st.sampled_from(["push", "push", "cb", "static"])) for j in range(draw(st.integers(0, 2)))},
            "ins": {f"i{j}": draw(st.sampled_from(["pull", "pull", "cb", "static"])) for j in range(draw(st.integers(0, 2)))},
        })
    adapters, edges = {}, []
    outs = [["o", c["name"], n] for c in comps for n in c["outs"]]
    ins = draw(st.permutations([["i", c["name"], n] for c in comps for n in c["ins"]]))
    sources = list(outs)
    for inp in ins:
        if not sources or draw(st.integers(0, 7)) == 0:
            continue  # unconnected
        node = draw(st.sampled_from(sources))
        for _ in range(draw(st.sampled_from(list(chains)))):
            aid = f"a{len(adapters)}"
            adapters[aid] = draw(st.sampled_from(["scale", "scale", "lin", "nb", "dfix", "dpull", "dpush"]))
            edges.append([node, ["a", aid]])
            node = ["a", aid]
            sources.append(node)
        edges.append([node, list(inp)])
    listed = [c["name"] for c in comps if draw(st.integers(0, 9)) > 0] or [comps[0]["name"]]
    spec = {"comps": comps, "adapters": adapters, "edges": edges, "listed": list(draw(st.permutations(listed)))}
    if repair and edges and draw(st.integers(0, 3)) == 0:
        # some links are only created after a first, rejected connect attempt
        k = draw(st.integers(1, min(3, len(edges))))
        idx = draw(st.lists(st.integers(0, len(edges) - 1), min_size=k, max_size=k, unique=True))
        spec["later"] = [edges[i] for i in sorted(idx)]
    return spec


def enum_small(tier):
    """two components A (one output) and B (1-2 inputs), one chain of <=2 adapters, optional second input
    branching from every position (with 0-1 further adapter in thorough), every listing"""
    extra = [[]] + ([[k] for k in ADAPTERS] if tier == "thorough" else [["scale"], ["lin"]])
    for ko in ("push", "cb", "static"):
        for ki in ("pull", "cb", "static"):
            for n in (0, 1, 2):
                for chain in itertools.product(ADAPTERS, repeat=n):
                    base_ad = {f"a{k}": a for k, a in enumerate(chain)}
                    nodes = [["o", "A", "o0"]] + [["a", f"a{k}"] for k in range(n)]
                    base_edges = [[nodes[k], nodes[k + 1]] for k in range(n)] + [[nodes[-1], ["i", "B", "i0"]]]
                    seconds = [None]
                    for ki2 in ("pull", "cb", "static"):
                        seconds.append((ki2, None, []))  # unconnected second input
                        for pos in range(len(nodes)):
                            for ex in extra:
                                seconds.append((ki2, pos, ex))
                    for sec in seconds:
                        ads, edges, ins = dict(base_ad), [list(e) for e in base_edges], {"i0": ki}
                        if sec is not None:
                            ki2, pos, ex = sec
                            ins["i1"] = ki2
                            if pos is not None:
                                node = nodes[pos]
                                for a in ex:
                                    aid = f"a{len(ads)}"
                                    ads[aid] = a
                                    edges.append([node, ["a", aid]])
                                    node = ["a", aid]
                                edges.append([node, ["i", "B", "i1"]])
                        for listed in (["A", "B"], ["B", "A"], ["A"], ["B"]):
                            yield {
                                "comps": [{"name": "A", "outs": {"o0": ko}, "ins": {}}, {"name": "B", "outs": {}, "ins": ins}],
                                "adapters": ads,
                                "edges": edges,
                                "listed": listed,
                            }


def parts():
    return [
        Part("small_enum", check, enumerate=enum_small, exhaustive=True),
        Part("topologies", check, strategy=topo(), strategy_thorough=topo(max_comps=4, chains=(0, 1, 2, 3, 4, 5, 6)), budget={"quick": 2500, "thorough": 120000}, fuzz={"thorough": 20000}),
    ]
