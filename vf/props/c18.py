"""C18 - masked data: compression round trips and mask rules are as documented."""
import itertools

import numpy as np
from hypothesis import strategies as st

from .. import h_grid as hg
from .. import h_slot as hs
from ..runner import Part
from .c15 import field, maskfn

PROP = "C18"
RULE = (
    "compress: arrays up to 3-D (sides 1-4), order C/F, mask kind (nomask, all-False, partial, full), plain or "
    "quantified - shapes x orders x mask kinds x quantified enumerated completely with a deterministic partial "
    "mask, plus Hypothesis-drawn masks; non-trivial = partial mask on a >=2-D non-square shape. "
    "prepare: grid layouts x payload forms (shaped, flat in grid order, time axis, list, quantity) under a fixed "
    "mask; non-trivial = >=2 non-degenerate axes and a mask with masked and unmasked cells. "
    "accept: all pairs (consumer spec, producer spec) of {FLEX, NONE, fixed, same fixed mask in another layout, "
    "different fixed mask, all-False, nomask} on Info.accepts and on a real link, for every layout pair of a "
    "geometry; non-trivial = both specs fixed arrays and layouts differ. distinct = canonical JSON."
)
ASSUMPTIONS = [
    "values under a mask are unspecified: compared at unmasked cells only, masks compared separately",
    "NONE consumer against a producer with an all-False/nomask fixed mask is treated as unspecified (not judged)",
]


# ------------------------------------------------------------------ compression round trip
def _mask_for(kind, shape, bits):
    n = int(np.prod(shape))
    if kind == "nomask":
        return np.ma.nomask
    if kind == "false":
        return np.zeros(shape, bool)
    if kind == "full":
        return np.ones(shape, bool)
    b = np.array([(bits >> (i % 60)) & 1 for i in range(n)], dtype=bool)
    if kind == "partial":
        if n > 1:
            b[0], b[-1] = True, False
    return b.reshape(shape)


REPRS = ["bool", "int", "uint8", "list", "listbool"]  # "valid boolean mask for MaskedArray": anything np.ma.make_mask takes


def _repr(mask, rep):
    m = np.asarray(mask, bool)
    if rep == "int":
        return m.astype(int)
    if rep == "uint8":
        return m.astype(np.uint8)
    if rep == "list":
        return m.astype(int).tolist()
    if rep == "listbool":
        return m.tolist()
    return m


def _same_values(got, exp):
    """value equality that does not lose integers beyond 2^53 in a float comparison"""
    got, exp = np.asarray(got), np.asarray(exp)
    if got.shape != exp.shape:
        return False
    if exp.dtype.kind in "iu":
        return [int(v) for v in got.ravel().tolist()] == [int(v) for v in exp.ravel().tolist()]
    return bool(np.array_equal(got, exp))


def check_compress(case, ctx):
    from finam.data import tools

    shape, order, kind, quant, bits = tuple(case["shape"]), case["order"], case["mask"], case["quant"], case["bits"]
    rep = case.get("repr", "bool")
    ctx.event(f"mask-argument-as={rep}")
    n = int(np.prod(shape))
    vals = (np.arange(n, dtype=float) * 1.5 + 0.25).reshape(shape)
    dt = case.get("dtype", "float64")
    if dt == "int64":  # identifiers / nanosecond time stamps: not representable in float64
        vals = (np.arange(n, dtype=np.int64) * 3 + (2**60 + 1)).reshape(shape)
    elif dt == "float32":
        vals = vals.astype(np.float32)
    elif dt == "int16":
        vals = (np.arange(n, dtype=np.int16) * 7 - 3).reshape(shape)
    if dt != "float64":
        ctx.event(f"data-dtype={dt}")
    mask = _mask_for(kind, shape, bits)
    ctx.event(f"mask={kind}")
    ctx.event(f"ndim={len(shape)}")
    ma = np.ma.getmaskarray(np.ma.array(vals, mask=mask))
    partial = ma.any() and not ma.all()
    ctx.nontrivial(partial and len(shape) >= 2 and len(set(shape)) > 1)
    x = np.ma.array(vals.copy(), mask=mask, shrink=False)
    if quant:
        x = tools.UNITS.Quantity(x, "m")
    c = tools.to_compressed(x, order=order)
    cm = hs.magnitude(c)
    exp = vals.ravel(order=order)[~ma.ravel(order=order)]
    if np.shape(cm) != exp.shape or not _same_values(np.ma.getdata(cm), exp):
        ctx.violation("to_compressed", f"to_compressed != x.ravel({order})[~mask.ravel({order})] for shape {shape} mask {kind}")
        return
    if np.ma.is_masked(cm):
        ctx.violation("to_compressed-masked", "compressed data still has masked entries")
    if quant and str(getattr(c, "units", None)) != "m":
        ctx.violation("to_compressed-units", f"units lost: {getattr(c, 'units', None)}")
    # explicit mask argument for plain data
    if kind != "nomask":
        plain = tools.UNITS.Quantity(vals.copy(), "m") if quant else vals.copy()
        c2 = tools.to_compressed(plain, order=order, mask=_repr(mask, rep))
        if not _same_values(np.ma.getdata(hs.magnitude(c2)), exp):
            ctx.violation("to_compressed-maskarg", f"to_compressed(plain, mask=<{rep}>) differs from masked variant")
    r = tools.from_compressed(c, shape, order=order, mask=mask if kind == "nomask" else _repr(mask, rep))
    rm = hs.magnitude(r)
    if np.shape(rm) != shape:
        ctx.violation("from_compressed-shape", f"shape {np.shape(rm)} != {shape}")
        return
    if not np.array_equal(np.ma.getmaskarray(rm), ma):
        ctx.violation("from_compressed-mask", f"mask not restored for shape {shape} order {order} mask {kind}")
        return
    if not _same_values(np.ma.getdata(rm)[~ma], vals[~ma]):
        ctx.violation("from_compressed-values", f"unmasked values not at their original positions: shape {shape} order {order}")
    if quant and str(getattr(r, "units", None)) != "m":
        ctx.violation("from_compressed-units", f"units lost: {getattr(r, 'units', None)}")


def enum_compress(tier):
    shapes = [s for d in (1, 2, 3) for s in itertools.product((1, 2, 3, 4) if tier == "thorough" else (1, 2, 3), repeat=d)]
    for shape in shapes:
        for order, kind, quant in itertools.product("CF", ("nomask", "false", "partial", "full"), (False, True)):
            for rep in (REPRS if kind == "partial" else ["bool"]):
                yield {"shape": list(shape), "order": order, "mask": kind, "quant": quant, "bits": 0x5A5A3C3C96969, "repr": rep}
            if kind in ("partial", "false"):
                for dt in ("int64", "float32", "int16"):
                    yield {"shape": list(shape), "order": order, "mask": kind, "quant": quant, "bits": 0x5A5A3C3C96969, "repr": "bool", "dtype": dt}


compress_st = st.fixed_dictionaries({
    "shape": st.lists(st.integers(1, 4), min_size=1, max_size=3),
    "order": st.sampled_from("CF"),
    "mask": st.sampled_from(["partial", "partial", "random", "random", "false", "full", "nomask"]),
    "quant": st.booleans(),
    "bits": st.integers(0, 2**60 - 1),
    "repr": st.sampled_from(["bool", "bool"] + REPRS),
    "dtype": st.sampled_from(["float64", "float64", "float64", "int64", "float32", "int16"]),
})


# ------------------------------------------------------------------ prepare under a fixed mask
FORMS = ["shaped", "flat", "time", "list", "quant", "quantflat", "masked", "flat-time", "quantint"]


def check_prepare(case, ctx):
    import finam as fm
    from finam.data import tools

    cfg, form = case["grid"], case["form"]
    g = hg.build(cfg)
    LOC, shape, order = hg.ref(cfg)
    x = field(LOC)
    M = maskfn(LOC)
    nd = hg.n_nondegenerate(cfg)
    ctx.event(f"form={form}")
    ctx.event(f"order={order}")
    ctx.nontrivial(nd >= 2 and M.any() and not M.all())
    info = fm.Info(time=hs.T0, grid=g, units="m", mask=M)
    if form == "shaped":
        payload = x.copy()
    elif form == "flat":
        payload = x.ravel(order=order).copy()
    elif form == "time":
        payload = x[np.newaxis].copy()
    elif form == "flat-time":
        payload = x.ravel(order=order).copy()
    elif form == "list":
        payload = x.tolist()
    elif form == "quant":
        payload = tools.UNITS.Quantity(x.copy(), "m")
    elif form == "quantflat":
        payload = tools.UNITS.Quantity(x.ravel(order=order).copy(), "km")
    elif form == "quantint":
        # integer-typed payload in foreign units (class codes, counts): converted, and masked like any other
        xi = np.round(x).astype(np.int32)
        payload = tools.UNITS.Quantity(xi.copy(), "km")
    else:
        payload = np.ma.array(x.copy(), mask=M)
    try:
        r = tools.prepare(payload, info)
    except fm.FinamDataError as e:
        ctx.violation(f"prepare-refused-{form}", f"prepare refused a documented payload form: {e}")
        return
    m = r.magnitude
    if np.shape(m) != (1,) + tuple(shape):
        ctx.violation("prepare-shape", f"shape {np.shape(m)} for form {form}")
        return
    gm = np.ma.getmaskarray(m[0])
    if not np.array_equal(gm, M):
        flat = form in ("flat", "quantflat", "flat-time")
        ctx.violation("prepare-mask-flat" if flat else f"prepare-mask-{form}",
                      f"result mask differs from the info mask for form {form} on {cfg}")
        return
    exp = x * (1e-3 if False else 1.0)
    if form == "quantflat":
        exp = x * 1000.0
    if form == "quantint":
        exp = np.round(x) * 1000.0
    if not hs.unmasked_equal(m[0], exp, M, rtol=1e-12):
        ctx.violation(f"prepare-values-{form}", f"values misplaced for form {form} on {cfg}")
        return
    # the same Info object used again after its grid (same geometry, other flattening order) and then its mask were
    # replaced through the documented setters: "applies exactly that mask" refers to the metadata as it is now
    if cfg["cls"] == "esri":
        return
    order2 = "C" if order == "F" else "F"
    info.grid = hg.build(dict(cfg, order=order2))
    steps = [("after-grid-swap", M)]
    M2 = ~M if (M.any() and not M.all()) else np.roll(M, 1)
    steps.append(("after-mask-swap", M2))
    for tag, mask_now in steps:
        if tag == "after-mask-swap":
            info.mask = M2
        for flat in (True, False):
            data = x.ravel(order=order2).copy() if flat else x.copy()
            try:
                r2 = tools.prepare(data, info)
            except fm.FinamDataError as e:
                ctx.violation(f"prepare-refused-{tag}", f"prepare refused data under a re-used Info: {e}")
                return
            m2 = r2.magnitude
            if np.shape(m2) != (1,) + tuple(shape) or not np.array_equal(np.ma.getmaskarray(m2[0]), mask_now):
                ctx.violation(f"prepare-mask-{tag}", f"{'flat' if flat else 'shaped'} data under a re-used Info ({tag}, order {order}->{order2}): result mask differs from the info mask on {cfg}")
                return
            if not hs.unmasked_equal(m2[0], x, mask_now, rtol=1e-12):
                ctx.violation(f"prepare-values-{tag}", f"{'flat' if flat else 'shaped'} data under a re-used Info ({tag}): values misplaced on {cfg}")
                return


prepare_st = st.fixed_dictionaries({"grid": hg.grid_cfg(), "form": st.sampled_from(FORMS)})


def enum_prepare(tier):
    for cfg in hg.enum_layouts(templates=[(3, 2, 4), (2, 3, 1)]):
        for form in FORMS:
            yield {"grid": cfg, "form": form}


# ------------------------------------------------------------------ acceptance relation
SPECS = ["FLEX", "NONE", "fixed", "other", "allfalse", "nomask"]


def _spec(name, LOC):
    import finam as fm

    if name == "FLEX":
        return fm.Mask.FLEX
    if name == "NONE":
        return fm.Mask.NONE
    if name == "fixed":
        return maskfn(LOC)
    if name == "other":
        return ~maskfn(LOC) if maskfn(LOC).any() and not maskfn(LOC).all() else (field(LOC) > np.median(field(LOC)))
    if name == "allfalse":
        return np.zeros(LOC.shape[:-1], bool)
    return np.ma.nomask


def expected_accept(cons, prod, LOCa):
    """consumer spec, producer spec -> True / False / None (unspecified)"""
    fixed_family = {"fixed", "other", "allfalse", "nomask"}
    if cons == "FLEX":
        return True
    if cons == "NONE":
        if prod == "NONE":
            return True
        if prod in ("allfalse", "nomask"):
            return None
        return False
    # fixed-mask consumer
    if prod not in fixed_family:
        return False

    def canon(n):
        if n in ("allfalse", "nomask"):
            return "zero"
        return n

    a, b = canon(cons), canon(prod)
    m = maskfn(LOCa)
    degenerate = not (m.any() and not m.all())
    if degenerate:
        # 'fixed' may coincide with all-False/all-True, 'other' is then defined by the median split: compare arrays
        return None
    return a == b


def check_accept(case, ctx):
    import finam as fm

    a, b, cons, prod = case["a"], case["b"], case["cons"], case["prod"]
    ga, gb = hg.build(a), hg.build(b)
    LA, _, _ = hg.ref(a)
    LB, _, _ = hg.ref(b)
    exp = expected_accept(cons, prod, LA)
    ctx.event(f"{cons}<-{prod}")
    if exp is None:
        ctx.event("unspecified")
        return
    from .c15 import _layout_equal

    ctx.nontrivial(cons in ("fixed", "other") and prod in ("fixed", "other") and not _layout_equal(a, b))
    pinfo = fm.Info(time=hs.T0, grid=ga, units="m", mask=_spec(prod, LA))
    cinfo = fm.Info(time=hs.T0, grid=gb, units="m", mask=_spec(cons, LB))
    fail = {}
    got = bool(cinfo.accepts(pinfo, fail))
    mask_ok = "mask" not in fail
    if mask_ok != exp:
        ctx.violation("accepts-table", f"consumer {cons} / producer {prod}: Info.accepts mask verdict {mask_ok}, documented {exp} ({a} / {b})")
    if not got and mask_ok and exp:
        ctx.violation("accepts-other-field", f"compatible infos rejected for {list(fail)}")
    # downstream direction (as used by Output.get_info)
    fail2 = {}
    pinfo.accepts(cinfo, fail2, incoming_donwstream=True)
    if ("mask" not in fail2) != exp:
        ctx.violation("accepts-table-downstream", f"consumer {cons} / producer {prod}: downstream verdict {'mask' not in fail2}, documented {exp}")
    # real link
    link = hs.Link(pinfo, [cinfo])
    try:
        link.connect()
        ok = True
    except fm.FinamMetaDataError:
        ok = False
    if ok != exp:
        ctx.violation("link-table", f"consumer {cons} / producer {prod}: link {'connected' if ok else 'refused'}, documented {'accept' if exp else 'refuse'} ({a} / {b})")


def enum_accept(tier):
    from .c15 import base_cfgs, layouts

    tpls = [(3, 2, 2)] if tier == "quick" else [(3, 2, 2), (2, 3, 4)]
    for tpl in tpls:
        for base, lens in base_cfgs(tpl, classes=("uni",)):
            dim = len(lens)
            if dim == 3 and tier == "quick" and base["loc"] == "POINTS":
                continue
            ls = list(layouts(dim, lens))
            for la, lb in itertools.product(ls, repeat=2):
                if dim == 3 and (la[0] != "F" or lb[0] != "F"):
                    continue  # order does not enter the mask relation; keep 3-D affordable
                a = hg.same_geometry_layout(base, *la)
                b = hg.same_geometry_layout(base, *lb)
                for cons, prod in itertools.product(SPECS, repeat=2):
                    yield {"a": a, "b": b, "cons": cons, "prod": prod}


def parts():
    return [
        Part("compress_enum", check_compress, enumerate=enum_compress, exhaustive=True),
        Part("compress_gen", check_compress, strategy=compress_st, budget={"quick": 1500, "thorough": 40000}),
        Part("prepare_enum", check_prepare, enumerate=enum_prepare, exhaustive=True),
        Part("prepare_gen", check_prepare, strategy=prepare_st, budget={"quick": 1000, "thorough": 30000}),
        Part("accept_enum", check_accept, enumerate=enum_accept, exhaustive=True),
    ]
