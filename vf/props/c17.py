"""C17 - units: compatibility is dimensional equality, conversion is physically exact."""
import itertools

import numpy as np
from hypothesis import strategies as st

from .. import h_slot as hs
from .. import h_units as hu
from ..runner import Part

PROP = "C17"
RULE = (
    "pairs: every ordered pair of the 85-entry hand-annotated catalogue (SI, prefixes, UDUNITS powers, rates, "
    "offset temperatures, percent, dimensionless aliases, compound units) through every helper "
    "(compatible, equivalent, to_units, prepare, publish with foreign units, link pull; the last two also on an output with "
    "memory limit 0, the judged item re-read from its spill file after later publications); enumerated completely. "
    "sequences: Hypothesis-drawn query sequences (helper, a, b) with cache clears so the memoisation history "
    "varies. non-trivial pair = two different strings; non-trivial sequence = queries (a,b) after (b,a) or "
    "after a cache clear, with at least one compatible-but-not-equivalent pair. distinct = canonical JSON."
)
ASSUMPTIONS = [
    "oracle = hand-written (dimension, factor, offset) catalogue in vf/h_units.py; pint only parses the strings",
    "numeric tolerance rtol 1e-9 (atol 1e-9 * scale); equivalent units must relabel bitwise",
    "bare helper to_units() on incompatible units is not required to raise a finam error (only links/publications are)",
]
X = np.array([0.0, 1.0, -3.5, 100.0, 12345.678])


def _close(got, exp):
    got, exp = np.asarray(got, float), np.asarray(exp, float)
    scale = max(1.0e-300, float(np.max(np.abs(exp))))  # relative to the converted numbers themselves: no absolute floor
    return got.shape == exp.shape and np.allclose(got, exp, rtol=1e-9, atol=1e-9 * scale)


def q_compat(a, b, ctx):
    from finam.data import tools

    try:
        got = bool(tools.compatible_units(a, b))
    except Exception as e:  # pylint: disable=broad-except
        ctx.violation("compatible-raises", f"compatible_units({a!r},{b!r}) raised {type(e).__name__}: {e}")
        return
    if got != hu.compatible(a, b):
        ctx.violation("compatible", f"compatible_units({a!r},{b!r}) = {got}, dimensions say {hu.compatible(a, b)}")


def q_equiv(a, b, ctx):
    from finam.data import tools

    try:
        got = bool(tools.equivalent_units(a, b))
    except Exception as e:  # pylint: disable=broad-except
        ctx.violation("equivalent-raises", f"equivalent_units({a!r},{b!r}) raised {type(e).__name__}: {e}")
        return
    if got != hu.equivalent(a, b):
        ctx.violation("equivalent", f"equivalent_units({a!r},{b!r}) = {got}, expected {hu.equivalent(a, b)}")


def q_to_units(a, b, ctx):
    from finam.data import tools

    if not hu.compatible(a, b):
        return
    q = tools.UNITS.Quantity(X.copy(), a)
    r, conv = tools.to_units(q, b, check_equivalent=True, report_conversion=True)
    if str(r.units) != str(tools.UNITS.Unit(b)):
        ctx.violation("to_units-label", f"to_units({a!r}->{b!r}) result units {r.units}")
    if hu.equivalent(a, b):
        if not np.array_equal(r.magnitude, X):
            ctx.violation("to_units-equivalent-changed", f"equivalent units {a!r}->{b!r} changed numbers: {r.magnitude}")
    elif not _close(r.magnitude, hu.convert(X, a, b)):
        ctx.violation("to_units-values", f"to_units({a!r}->{b!r}) = {r.magnitude}, expected {hu.convert(X, a, b)}")


MASK = np.array([False, True, False, False, True])


def _grid_info(units, masked):
    import finam as fm

    if masked:
        return fm.Info(time=hs.T0, grid=fm.UniformGrid((6,)), units=units, mask=MASK)
    return fm.Info(time=hs.T0, grid=fm.NoGrid(1), units=units)


def q_prepare(a, b, ctx, masked=False):
    """data quantified in a prepared under an info that declares b (optionally with a fixed mask)"""
    import finam as fm
    from finam.data import tools

    info = _grid_info(b, masked)
    q = tools.UNITS.Quantity(X.copy(), a)
    try:
        r = tools.prepare(q, info)
    except fm.FinamDataError:
        if hu.compatible(a, b):
            ctx.violation("prepare-false-refusal", f"prepare refused compatible units {a!r} under {b!r}")
        return
    except Exception as e:  # pylint: disable=broad-except
        ctx.violation("prepare-raw-error", f"prepare({a!r} under {b!r}) raised {type(e).__name__}: {e}")
        return
    if not hu.compatible(a, b):
        ctx.violation("prepare-accepts-incompatible", f"prepare accepted {a!r} under info units {b!r}")
        return
    exp = X if hu.equivalent(a, b) else hu.convert(X, a, b)
    keep = ~MASK if masked else np.ones(len(X), bool)
    got = np.ma.getdata(r.magnitude[0])
    # (prepare keeps the label of equivalent units; only the numbers are judged here)
    if not _close(got[keep], exp[keep]):
        ctx.violation("prepare-values" + ("-masked-info" if masked else ""), f"prepare({a!r} under {b!r}) = {got}, expected {exp}")
    if hu.equivalent(a, b) and not np.array_equal(got[keep], X[keep]):
        ctx.violation("prepare-equivalent-changed", f"equivalent units {a!r}->{b!r} changed numbers")


def q_link(a, b, ctx, publish_unit=None, masked=False, flipped=False, spill=False):
    """producer declares a, consumer declares b; optionally the payload is quantified in publish_unit. flipped: both
    ends on a grid, the consumer's with the axis direction reversed (the conversion then acts on a transformed
    view of the stored data). The same stored item is pulled three times: every pull must be the exact conversion.
    spill: the output has a memory limit of 0 bytes (everything it keeps is written to disk and re-read on pull)
    and two later items are published before the first pull, so the judged item comes back from its file."""
    import finam as fm
    from finam.data import tools

    if spill:
        import tempfile

        with tempfile.TemporaryDirectory(prefix="vf-c17-") as tmp:
            return _q_link(a, b, ctx, publish_unit, masked, flipped, tmp)
    return _q_link(a, b, ctx, publish_unit, masked, flipped, None)


def _q_link(a, b, ctx, publish_unit, masked, flipped, spill_dir):
    import datetime as dt

    import finam as fm
    from finam.data import tools

    if flipped:
        pinfo = fm.Info(time=hs.T0, grid=fm.UniformGrid((6,)), units=a)
        cinfo = fm.Info(time=hs.T0, grid=fm.UniformGrid((6,), axes_increase=[False]), units=b)
    else:
        pinfo = _grid_info(a, masked)
        cinfo = _grid_info(b, False) if not masked else fm.Info(time=hs.T0, grid=fm.UniformGrid((6,)), units=b)
    link = hs.Link(pinfo, [cinfo]) if spill_dir is None else hs.Link(pinfo, [cinfo], mem_limit=0, mem_loc=spill_dir)
    try:
        link.connect()
    except fm.FinamMetaDataError:
        if hu.compatible(a, b):
            ctx.violation("link-false-refusal", f"link refused compatible units {a!r} -> {b!r}")
        return
    except Exception as e:  # pylint: disable=broad-except
        ctx.violation("link-raw-error", f"link {a!r}->{b!r}: {type(e).__name__}: {e}")
        return
    if not hu.compatible(a, b):
        ctx.violation("link-accepts-incompatible", f"link accepted incompatible units {a!r} -> {b!r}")
        return
    p = publish_unit
    payload = X.copy() if p is None else tools.UNITS.Quantity(X.copy(), p)
    try:
        link.out.push_data(payload, hs.T0)
    except fm.FinamDataError:
        if p is None or hu.compatible(p, a):
            ctx.violation("publish-false-refusal", f"publication in {p!r} refused by output declaring {a!r}")
        return
    except Exception as e:  # pylint: disable=broad-except
        ctx.violation("publish-raw-error", f"publication in {p!r} to {a!r}: {type(e).__name__}: {e}")
        return
    if p is not None and not hu.compatible(p, a):
        ctx.violation("publish-accepts-incompatible", f"output declaring {a!r} accepted data in {p!r}")
        return
    if spill_dir is not None:
        try:
            for k in (1, 2):
                later = X + 1000.0 * k
                link.out.push_data(later if p is None else tools.UNITS.Quantity(later, p), hs.T0 + dt.timedelta(days=k))
        except Exception as e:  # pylint: disable=broad-except
            ctx.violation("publish-raw-error-spill", f"later publication in {p!r} to {a!r} with memory limit 0: {type(e).__name__}: {e}")
            return
    src = p if p is not None else a
    # published numbers are in unit src; expected at the consumer: src -> a -> b
    in_a = X if (p is None or hu.equivalent(p, a)) else hu.convert(X, p, a)
    exp = in_a if hu.equivalent(a, b) else hu.convert(in_a, a, b)
    x0 = X
    if flipped:
        exp, x0 = exp[::-1], X[::-1]
    keep = ~MASK if masked else np.ones(len(X), bool)
    for n_pull in (1, 2, 3):
        r = link.inputs[0].pull_data(hs.T0)
        if str(r.units) != str(tools.UNITS.Unit(b)):
            ctx.violation("link-label", f"pulled units {r.units}, consumer declared {b!r}")
        got = np.ma.getdata(r.magnitude[0])
        suffix = ("-masked-info" if masked else "") + ("-flipped-grid" if flipped else "") + ("-spilled" if spill_dir is not None else "") + ("" if n_pull == 1 else "-repeated-pull")
        if not _close(got[keep], exp[keep]):
            ctx.violation("link-values" + suffix, f"{src!r} -> {a!r} -> {b!r} (pull {n_pull} of the same item): got {got}, expected {exp}")
            return
        if p is None and hu.equivalent(a, b) and not np.array_equal(got[keep], x0[keep]):
            ctx.violation("link-equivalent-changed", f"equivalent units {a!r}->{b!r} changed numbers on the link")
            return


def q_big(a, b, ctx):
    """to_units and prepare on arrays of 2^14 - 1, 2^14 and 66 000 entries (conversion paths may depend on the size)"""
    import finam as fm
    from finam.data import tools

    if not hu.compatible(a, b):
        return
    for n in (16383, 16384, 66000):
        x = np.tile(X, n // len(X) + 1)[:n] + 0.125 * (np.arange(n) % 7)
        exp = x if hu.equivalent(a, b) else hu.convert(x, a, b)
        try:
            r = tools.to_units(tools.UNITS.Quantity(x.copy(), a), b)
            p = tools.prepare(tools.UNITS.Quantity(x.copy(), a), fm.Info(time=hs.T0, grid=fm.NoGrid(1), units=b))
        except Exception as e:  # pylint: disable=broad-except
            ctx.violation("big-raw-error", f"conversion of {n} values {a!r} -> {b!r}: {type(e).__name__}: {e}")
            return
        for name, got in (("to_units", np.asarray(r.magnitude)), ("prepare", np.asarray(p.magnitude)[0])):
            if got.shape != exp.shape or not _close(got, exp):
                bad = int(np.sum(~np.isclose(got, exp, rtol=1e-9, atol=0))) if got.shape == exp.shape else -1
                ctx.violation(f"{name}-values-large-array", f"{name} of {n} values {a!r} -> {b!r}: {bad} entries differ from the physical conversion, e.g. {got.ravel()[3]} vs {exp[3]}")
                return


def _decimal(u):
    """unit whose SI factor is a power of ten without offset (prefix scalings: exact in pint for any dtype)"""
    import math

    dim, fac, off = hu.CATALOGUE[u]
    return off == 0.0 and dim != hu.T and abs(math.log10(fac) - round(math.log10(fac))) < 1e-12


def q_ints(a, b, ctx):
    """integer-typed payloads (counts, class codes, scaled sensor values in int16 / int32 / int64) between units that
    differ by a power of ten: the converted numbers are the physical conversion, whatever dtype they come in"""
    import finam as fm
    from finam.data import tools

    if not hu.compatible(a, b) or hu.CATALOGUE[a][2] != 0.0 or hu.CATALOGUE[b][2] != 0.0:
        return
    # every compatible pair without offset (since fix 8f2d363 integer payloads are converted as floats, so also the
    # pairs for which pint keeps a whole-number factor: week/day/h/min -> s, ha -> m2). int64 carries values whose
    # product with such a factor leaves the 64-bit range.
    for dt in (np.int16, np.int32, np.int64):
        x = np.array([0, 1, -3, 100, 12345] + ([2 * 10**13, -(10**15)] if dt is np.int64 else []), dtype=dt)
        exp = x.astype(float) if hu.equivalent(a, b) else hu.convert(x.astype(float), a, b)
        try:
            r = tools.to_units(tools.UNITS.Quantity(x.copy(), a), b)
            p = tools.prepare(tools.UNITS.Quantity(x.copy(), a), fm.Info(time=hs.T0, grid=fm.NoGrid(1), units=b))
        except Exception as e:  # pylint: disable=broad-except
            ctx.violation("int-raw-error", f"conversion of {dt.__name__} values {a!r} -> {b!r}: {type(e).__name__}: {e}")
            return
        for name, got in (("to_units", np.asarray(r.magnitude)), ("prepare", np.asarray(p.magnitude)[0])):
            if got.shape != exp.shape or not _close(got.astype(float), exp):
                ctx.violation(f"{name}-values-integer-dtype", f"{name} of {dt.__name__} {x.tolist()} {a!r} -> {b!r} gives {got.tolist()}, the physical conversion is {exp.tolist()}")
                return


HELPERS = ["compat", "equiv", "to_units", "prepare", "link", "publish", "prepare_m", "publish_m", "link_m", "link_t", "publish_s", "link_s", "big", "ints"]


def run_query(q, ctx):
    h, a, b = q[0], q[1], q[2]
    if h == "compat":
        q_compat(a, b, ctx)
    elif h == "equiv":
        q_equiv(a, b, ctx)
    elif h == "to_units":
        q_to_units(a, b, ctx)
    elif h == "prepare":
        q_prepare(a, b, ctx)
    elif h == "link":
        q_link(a, b, ctx)
    elif h == "publish":
        # payload quantified in a, output declares b, consumer takes b
        q_link(b, b, ctx, publish_unit=a)
    elif h == "prepare_m":
        q_prepare(a, b, ctx, masked=True)
    elif h == "publish_m":
        q_link(b, b, ctx, publish_unit=a, masked=True)
    elif h == "link_m":
        q_link(a, b, ctx, masked=True)
    elif h == "link_t":
        q_link(a, b, ctx, flipped=True)
    elif h == "publish_s":
        q_link(b, b, ctx, publish_unit=a, spill=True)
    elif h == "link_s":
        q_link(a, b, ctx, spill=True)
    elif h == "big":
        q_big(a, b, ctx)
    elif h == "ints":
        q_ints(a, b, ctx)


def check_pair(case, ctx):
    from finam.data import tools

    tools.clear_units_cache()  # process-global memo: every case starts from the same state
    a, b = case
    ctx.nontrivial(a != b)
    ctx.event("compatible" if hu.compatible(a, b) else "incompatible")
    if hu.compatible(a, b) and not hu.equivalent(a, b):
        ctx.event("needs-conversion")
    if hu.CATALOGUE[a][2] != hu.CATALOGUE[b][2]:
        ctx.event("offset-differs")
    for h in HELPERS:
        run_query((h, a, b), ctx)


def check_sequence(case, ctx):
    from finam.data import tools

    tools.clear_units_cache()  # process-global memo: every case starts from the same state
    seen = set()
    nt = False
    conv = False
    cleared = False
    for q in case:
        if q[0] == "clear":
            tools.clear_units_cache()
            cleared = True
            continue
        _h, a, b = q
        if (b, a) in seen and a != b:
            nt = True
        if cleared and (a, b) in seen:
            nt = True
        if hu.compatible(a, b) and not hu.equivalent(a, b):
            conv = True
        seen.add((a, b))
        run_query(q, ctx)
    ctx.nontrivial(nt and conv)
    ctx.event("seq-with-reverse-or-clear" if nt else "seq-plain")


# pairs biased towards the same dimension (otherwise ~93% of random pairs are trivially incompatible)
@st.composite
def unit_pair(draw):
    a = draw(st.sampled_from(hu.NAMES))
    if draw(st.integers(0, 9)) < 7:
        b = draw(st.sampled_from(hu.by_dimension()[hu.dim(a)]))
    else:
        b = draw(st.sampled_from(hu.NAMES))
    return a, b


@st.composite
def sequence(draw):
    pairs = draw(st.lists(unit_pair(), min_size=2, max_size=6))
    n = draw(st.integers(4, 24))
    out = []
    for _ in range(n):
        k = draw(st.integers(0, 11))
        if k == 0:
            out.append(["clear"])
            continue
        a, b = draw(st.sampled_from(pairs))
        if draw(st.booleans()):
            a, b = b, a
        out.append([draw(st.sampled_from(HELPERS)), a, b])
    return out


def parts():
    return [
        Part("pairs_enum", check_pair, exhaustive=True,
             enumerate=lambda tier: ([a, b] for a, b in itertools.product(hu.NAMES, repeat=2))),
        Part("sequences", check_sequence, strategy=sequence(), budget={"quick": 500, "thorough": 15000}),
    ]
