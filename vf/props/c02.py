"""C02 - the driver follows least-advanced-first and updates only what is needed."""
from ..runner import Part
from . import c01

PROP = "C02"
RULE = (
    "same generator as C01 (real compositions: DAGs, pull-based components, delay-resolved rings, every adapter "
    "order, start offsets, all listing/link orders). At every update event of component x the justified set is "
    "built from the snapshot: all components at the minimum time, closed under 'u lags behind what c in S needs "
    "for its announced pull' by the reference model (delays of chained delay adapters add up); x must be in it. "
    "A producer advanced further than any dependant requires, or a component updated because of its list "
    "position, is outside the set at that event. non-trivial = run with >=1 update of a component that is not "
    "at the minimum time (reached through a dependency chain) and producer/consumer steps that differ. "
    "distinct = canonical JSON of the spec."
)
ASSUMPTIONS = c01.ASSUMPTIONS + ["ties between components at the minimum time are not constrained (any may be picked)"]


def check(spec, ctx):
    c01.check(spec, ctx, want=("C02",), prop="C02")


def parts():
    from . import c13

    return [
        Part("compositions", check, strategy=c01.spec_st, strategy_thorough=c01.spec_deep, budget={"quick": 1600, "thorough": 100000}, fuzz={"thorough": 6000}),
        # "the time for which the driver checks availability on a link equals the time that is actually requested":
        # also for calendar delays (relativedelta), where chained shifts are not additive (check shared with C13)
        Part("calendar_delays", c13.check_calendar, strategy=c13.calendar_case(), budget={"quick": 200, "thorough": 6000}, shrink_budget=150),
        Part("large_ratio_enum", check, enumerate=c01.enum_large_ratio, exhaustive=True),
    ]
