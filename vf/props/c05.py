"""C05 - the coupling outcome is independent of listing and linking order."""
from hypothesis import strategies as st

from .. import h_sched as S
from .. import h_sched_gen as G
from ..runner import Part

PROP = "C05"
RULE = (
    "differential: one generated composition (producers declare grid and units, no delay-to-push adapter; DAGs "
    "with pull-based components, fan-out at outputs and adapters, rings with sufficient / insufficient / no "
    "delay so that error outcomes are covered) is built and run under k permutations of (component listing, "
    "link creation order), always including identity and full reversal (k=4 quick, 8 thorough). Canonical "
    "outcome = (success | exception class, final component times, full (time, value, units) series of every "
    "consumer input including the connect pull, input/output infos as dicts) must be identical. "
    "non-trivial = at some update >=2 components tie for the minimum time, or an output has >=2 targets, or the "
    "outcome is an error. distinct = canonical JSON of spec + permutations."
)
ASSUMPTIONS = [
    "domain as stated by the property: declared producer metadata, no push-time-dependent adapter (dpush)",
    "for error outcomes only the exception class is compared (partial histories legitimately differ)",
]
KINDS = [k for k in G.ALL_KINDS if k != "dpush"]


def canonical(spec, outcome, trace, b):
    from .. import h_slot as hs

    if outcome != "ok":
        return {"outcome": outcome}
    series = {}
    for ev in trace:
        if ev[0] == "cpull":
            series.setdefault(f"{ev[1]}.{ev[2]}", []).append([ev[3], ev[4], ev[5]])
        elif ev[0] == "pull":
            series.setdefault(f"{ev[1]}.{ev[2]}", []).append([ev[3], ev[5], ev[6]] if ev[4] == "ok" else [ev[3], ev[4]])
    infos = {}
    for c in spec["comps"]:
        comp = b.comps[c["name"]]
        for n, i in comp.inputs.items():
            infos[f"{c['name']}<{n}"] = {**i.info.as_dict(), "time": str(i.info.time)}
        for n, o in comp.outputs.items():
            if o.has_targets:
                infos[f"{c['name']}>{n}"] = {**o.info.as_dict(), "time": str(o.info.time)}
    with S.tick_of(spec):
        times = {c["name"]: hs.mins(b.comps[c["name"]].time) for c in spec["comps"] if c["kind"] == "model"}
    return {"outcome": "ok", "times": times, "series": series, "infos": infos}


def _run(spec):
    """a slot memory limit needs a directory for the spill files (removed again whatever the outcome)"""
    if spec.get("mem_limit") is None:
        return S.run(spec)
    import shutil
    import tempfile

    d = tempfile.mkdtemp(prefix="vf-c05-")
    try:
        return S.run(spec, mem_loc=d)
    finally:
        shutil.rmtree(d, ignore_errors=True)


def check(case, ctx):
    spec = case["spec"]
    names = [c["name"] for c in spec["comps"]]
    nl = len(spec["links"])
    if spec.get("mem_limit") is not None:
        ctx.event("with-slot-memory-limit")
    if any(c.get("no_pull") for c in spec["comps"]):
        ctx.event("input-without-initial-pull")
    results = []
    ties = False
    for op, lp in case["perms"]:
        s2 = dict(spec)
        s2["order"] = [names[i % len(names)] for i in _perm(op, len(names))]
        s2["links"] = [spec["links"][i] for i in _perm(lp, nl)]
        outcome, msg, trace, b = _run(s2)
        if outcome == "HarnessBound":
            ctx.violation("unbounded-run", msg)
            return
        results.append((s2["order"], [l[3:5] for l in s2["links"]], canonical(spec, outcome, trace, b), msg))
        for ev in trace:
            if ev[0] == "update":
                snap = ev[4]
                tmin = min(v[0] for v in snap.values())
                if sum(1 for v in snap.values() if v[0] == tmin) >= 2:
                    ties = True
                    break
    ref = results[0][2]
    fan = len({(l[0], l[1]) for l in spec["links"]}) < nl
    ctx.event(f"outcome={ref['outcome']}")
    if fan:
        ctx.event("fan-out")
    if ties:
        ctx.event("ties")
    ctx.nontrivial(ties or fan or ref["outcome"] != "ok")
    for order, lorder, can, msg in results[1:]:
        if can == ref:
            continue
        if can["outcome"] != ref["outcome"]:
            ctx.violation("outcome-class-differs", f"order {results[0][0]} / links {results[0][1]} -> {ref['outcome']}; order {order} / links {lorder} -> {can['outcome']} ({(msg or results[0][3] or '')[:160]})")
        elif can["times"] != ref["times"]:
            ctx.violation("final-times-differ", f"{ref['times']} vs {can['times']} for order {order}")
        elif can["infos"] != ref["infos"]:
            k = [k for k in ref["infos"] if ref["infos"][k] != can["infos"].get(k)]
            ctx.violation("metadata-differs", f"{k[:3]}: {ref['infos'].get(k[0]) if k else ''} vs {can['infos'].get(k[0]) if k else ''} for order {order}")
        else:
            k = [k for k in ref["series"] if ref["series"][k] != can["series"].get(k)]
            ctx.violation("series-differ", f"input {k[:2]}: {ref['series'][k[0]][:6]} vs {can['series'].get(k[0], [])[:6]} for order {order} links {lorder}")
        return


def _perm(code, n):
    """permutation of range(n) from a list of integers (Lehmer-like); [] = identity, [-1] = reversal"""
    if code == [-1]:
        return list(range(n))[::-1]
    items = list(range(n))
    out = []
    for k in range(n):
        c = code[k] if k < len(code) else 0
        out.append(items.pop(c % len(items)))
    return out


def case_st(k, chains=False):
    @st.composite
    def build(draw):
        spec = draw(G.chain_spec(min_n=8, max_n=18, kinds=("scale", "cb", "next", "prev", "lin"))) if chains else draw(st.one_of(
            G.dag_spec(kinds=KINDS),
            G.dag_spec(kinds=KINDS),
            G.ring_spec(modes=["none", "suff", "suff_split", "suff_multi", "partial", "partial"]),
        ))
        # optional: a small slot memory limit (scalar payloads are 8 bytes: 1-5 data sets stay in RAM, the rest is
        # spilled) and consumers' inputs that do not pull during connect - neither may make the order matter
        if draw(st.integers(0, 3)) == 0:
            spec["mem_limit"] = draw(st.sampled_from([8, 16, 24, 40]))
        if draw(st.integers(0, 2)) == 0 and not spec.get("mode"):
            for c in spec["comps"]:
                if c["kind"] == "model" and c["ins"]:
                    c["no_pull"] = [n for n in c["ins"] if draw(st.integers(0, 2)) == 0]
        perms = [[[], []], [[-1], [-1]]]
        for _ in range(k - 2):
            perms.append([draw(st.lists(st.integers(0, 7), max_size=8)), draw(st.lists(st.integers(0, 11), max_size=12))])
        return {"spec": spec, "perms": perms}

    return build()


# ------------------------------------------------------------------ connect-phase shapes under permutations
def check_connect(case, ctx):
    """C06's dependency shapes (stepwise infos/data, rules, cycles) connected under several listing/link orders"""
    import re

    import finam as fm

    from . import c06
    from .. import h_slot as hs

    spec = case["spec"]
    names = [c["name"] for c in spec["comps"]]
    res = []
    for op, lp in case["perms"]:
        order = [names[i] for i in _perm(op, len(names))]
        links = [spec["links"][i] for i in _perm(lp, len(spec["links"]))]
        CC = c06._cls()
        log = []
        cs = {c["name"]: CC(c, k, log, 200) for k, c in enumerate(spec["comps"])}
        comp = fm.Composition([cs[n] for n in order], print_log=False)
        for a, ao, b, bi in links:
            cs[a].outputs[ao] >> cs[b].inputs[bi]
        try:
            comp.connect(hs.tm(min(c["start"] for c in spec["comps"])))
            out = ["ok", sorted((n, str({k: v.as_dict() for k, v in c.connector.in_infos.items()})) for n, c in cs.items())]
        except fm.FinamCircularCouplingError as e:
            m = re.search(r"\[(.*)\]", str(e))
            out = ["circ", sorted(x.strip() for x in m.group(1).split(",") if x.strip()) if m else []]
        except Exception as e:  # pylint: disable=broad-except
            out = [type(e).__name__]
        res.append((order, out))
    ctx.event(f"connect-outcome={res[0][1][0]}")
    ctx.nontrivial(len(spec["links"]) >= 2)
    for order, out in res[1:]:
        if out != res[0][1]:
            ctx.violation("connect-outcome-differs", f"order {res[0][0]} -> {res[0][1][:2]}; order {order} -> {out[:2]} | spec {spec}")
            return


def connect_case(k):
    from . import c06

    @st.composite
    def build(draw):
        spec = draw(c06.shape())
        perms = [[[], []], [[-1], [-1]]]
        for _ in range(k - 2):
            perms.append([draw(st.lists(st.integers(0, 5), max_size=4)), draw(st.lists(st.integers(0, 9), max_size=8))])
        return {"spec": spec, "perms": perms}

    return build()


# ------------------------------------------------------------------ validation under permutations
def check_topology(case, ctx):
    """C19's link topologies: the verdict of validation must not depend on link creation / listing order"""
    import finam as fm

    from . import c19

    spec = case["spec"]
    res = []
    for op, lp in case["perms"]:
        s2 = dict(spec)
        s2["listed"] = [spec["listed"][i] for i in _perm(op, len(spec["listed"]))]
        s2["edges"] = [spec["edges"][i] for i in _perm(lp, len(spec["edges"]))]
        comp, _comps, _nodes = c19.build(s2)
        try:
            comp.connect()
            out = "ok"
        except fm.FinamConnectError:
            out = "FinamConnectError"
        except Exception as e:  # pylint: disable=broad-except
            out = type(e).__name__
        res.append((s2["listed"], s2["edges"], out))
    ctx.event(f"verdict={res[0][2]}")
    fan = any(len([1 for a, _b in spec["edges"] if a == x]) > 1 for x, _y in spec["edges"])
    ctx.nontrivial(fan and len(spec["edges"]) >= 3)
    for listed, edges, out in res[1:]:
        if out != res[0][2]:
            ctx.violation("validation-verdict-differs", f"{res[0][2]} with edges {res[0][1]} listed {res[0][0]}; {out} with edges {edges} listed {listed}")
            return


def topology_case(k):
    from . import c19

    @st.composite
    def build(draw):
        spec = draw(c19.topo())
        perms = [[[], []], [[-1], [-1]]]
        for _ in range(k - 2):
            perms.append([draw(st.lists(st.integers(0, 3), max_size=3)), draw(st.lists(st.integers(0, 11), max_size=12))])
        return {"spec": spec, "perms": perms}

    return build()


def parts():
    return [
        Part("permutations", check, strategy=case_st(4), budget={"quick": 500, "thorough": 0}, shrink_budget=250),
        # one dependency path of 8-18 components: identity = source-first, reversal = sink-first (most connect rounds)
        Part("long_chain_permutations", check, strategy=case_st(4, chains=True), budget={"quick": 60, "thorough": 3000}, shrink_budget=80),
        Part("permutations8", check, strategy=case_st(8), budget={"quick": 0, "thorough": 20000}, shrink_budget=250),
        Part("topology_permutations", check_topology, strategy=topology_case(4), budget={"quick": 1500, "thorough": 60000}, fuzz={"thorough": 10000}),
        Part("connect_permutations", check_connect, strategy=connect_case(4), budget={"quick": 600, "thorough": 40000}),
    ]
