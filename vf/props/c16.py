"""C16 - regridding puts the right source value at each target location."""
import itertools

import numpy as np
from hypothesis import strategies as st

from .. import h_grid as hg
from .. import h_slot as hs
from ..runner import Part

PROP = "C16"
RULE = (
    "source/target grid pairs from uniform, rectilinear, ESRI (all layout flags), unstructured cells "
    "(quads or triangles on a jittered lattice, cell or point data) and unstructured points in 1-3 D, "
    "random masks on either side (never completely masked), run through a real Output >> RegridNearest / "
    "RegridLinear >> Input link (metadata exchange builds the interpolator, first publication is pulled). "
    "Oracle nearest: brute-force Euclidean argmin over the unmasked reference locations (any source within "
    "1e-9 of the minimum distance), masked target cells masked, masked source values (sentinel) nowhere; "
    "identity between layouts of one geometry. Oracle linear (unstructured or masked sources): an affine "
    "field is reproduced to 1e-9 strictly inside the convex hull of the unmasked source locations, outside "
    "masked or - with fill_with_nearest - equal to the nearest source value. non-trivial = a non-default "
    "layout flag on each side, or a mask with masked and unmasked cells. large_enum: sources / targets with "
    "65 536 .. 140 000 locations (fine to coarse, coarse to fine, fine to fine; rasters, quasi-random point "
    "clouds, 3-D) against a chunked brute-force reference. distinct = canonical JSON."
)
ASSUMPTIONS = [
    "reference locations from vf/h_grid.py (structured) / own mean-of-nodes (unstructured)",
    "scipy.spatial.Delaunay is trusted for the inside-hull test of the linear oracle only; targets within 1e-6 of the hull boundary are skipped and counted",
    "structured unmasked sources with RegridLinear are not generated (path outside the statement; broken with the installed scipy)",
    "CRS transformations are not covered",
]
SENTINEL = -9.0e9


# ------------------------------------------------------------------ grids
def locs_and_grid(g, sc=1.0):
    """-> (finam grid, flat locations (n, dim), data_shape, order). sc = length unit: the finam grid is built with all
    coordinates multiplied by sc, the returned reference locations stay unscaled (nearest / inside-hull relations and
    affine fields are invariant under a change of the length unit)"""
    import finam as fm

    if g["kind"] == "struct":
        cfg = g["cfg"]
        grid = hg.build(hg.scaled(cfg, sc))
        _LOC, shape, order = hg.ref(cfg)
        return grid, hg.flat_locs(cfg), tuple(shape), order
    if g["kind"] == "upoints":
        pts = np.asarray(g["pts"], float)
        return fm.UnstructuredPoints(pts * sc, order=g.get("order", "C")), pts, (len(pts),), g.get("order", "C")
    # unstructured cells on a jittered lattice
    nx, ny = g["nx"], g["ny"]
    jit = g["jit"]
    pts = []
    for j in range(ny):
        for i in range(nx):
            k = j * nx + i
            pts.append([i + jit[(2 * k) % len(jit)] / 8.0, j + jit[(2 * k + 1) % len(jit)] / 8.0])
    pts = np.asarray(pts, float)
    cells, types = [], []
    for j in range(ny - 1):
        for i in range(nx - 1):
            a, b, c, d = j * nx + i, j * nx + i + 1, (j + 1) * nx + i + 1, (j + 1) * nx + i
            tri = g["tri"] if g["tri"] != "mixed" else (i + j) % 2 == 0
            if tri:
                cells += [[a, b, c], [a, c, d]]
                types += [fm.CellType.TRI, fm.CellType.TRI]
            else:
                cells.append([a, b, c, d])
                types.append(fm.CellType.QUAD)
    width = max(len(c) for c in cells)
    padded = [c + [-1] * (width - len(c)) for c in cells]  # mixed meshes: unused entries are -1
    grid = fm.UnstructuredGrid(pts * sc, padded, types, data_location=g["loc"], order=g.get("order", "C"))
    if g["loc"] == "POINTS":
        return grid, pts, (len(pts),), g.get("order", "C")
    centers = np.array([pts[c].mean(axis=0) for c in cells])
    return grid, centers, (len(cells),), g.get("order", "C")


def mask_from_bits(bits, n, shape, order, force=False):
    if bits is None:
        return None
    m = np.array([(bits >> (k % 60)) & 1 for k in range(n)], dtype=bool)
    if m.all():
        m[0] = False
    if not m.any():
        if not force or n < 2:
            return None
        m[n - 1] = True
    return m  # flat, in grid order


def to_shape(flat, shape, order):
    return np.asarray(flat).reshape(shape, order=order)


# ------------------------------------------------------------------ check
def check(case, ctx):
    import finam as fm

    sc = float(case.get("scale", 1.0))
    if sc != 1.0:
        ctx.event(f"length-unit={sc}")
    sg, S, sshape, sorder = locs_and_grid(case["src"], sc)
    tg, T, tshape, torder = locs_and_grid(case["tgt"], sc)
    ns, nt = len(S), len(T)
    smask = mask_from_bits(case["smask"], ns, sshape, sorder, force=(case["method"] == "linear" and case["src"]["kind"] == "struct"))
    tmask = mask_from_bits(case["tmask"], nt, tshape, torder)
    method, fill = case["method"], case["fill"]
    dim = S.shape[1]
    ctx.event(f"{method}{'-fill' if fill else ''}:{case['src']['kind']}->{case['tgt']['kind']}:{dim}D")

    def nd(g):
        return hg.nondefault_flags(g["cfg"]) if g["kind"] == "struct" else 0

    ctx.nontrivial((nd(case["src"]) >= 1 and nd(case["tgt"]) >= 1) or smask is not None or tmask is not None)
    if smask is not None:
        ctx.event("source-mask")
    if tmask is not None:
        ctx.event("target-mask")
    # field
    if method == "nearest":
        vals = 100.0 + 7.0 * np.arange(ns)
    else:
        coef = np.array([1.5, -2.0, 0.75])[:dim]
        vals = S @ coef + 3.0
    src_keep = np.ones(ns, bool) if smask is None else ~smask
    data = vals.copy()
    data[~src_keep] = SENTINEL
    payload = to_shape(data, sshape, sorder)
    if smask is not None:
        payload = np.ma.array(payload, mask=to_shape(smask, sshape, sorder))
    if method == "linear":
        from scipy.spatial import Delaunay, QhullError  # pylint: disable=import-outside-toplevel,no-name-in-module

        try:
            if src_keep.sum() < dim + 1:
                raise ValueError("too few points")
            tri = Delaunay(S[src_keep])
        except (QhullError, ValueError):
            ctx.event("degenerate-hull(skipped)")  # precondition of linear interpolation, not generated on purpose
            return
        if case["src"]["kind"] == "struct" and smask is None:
            ctx.event("structured-unmasked-linear(skipped)")
            return
    # who declares the grids: both ends | the adapter supplies the target grid (consumer leaves it open) |
    # the adapter supplies the source grid (producer leaves it open)  [C07: metadata through rewriting adapters]
    meta = case.get("meta", "both")
    if smask is not None and meta == "producer-open":
        meta = "both"  # a fixed mask needs the producer's own grid
    if tmask is not None and meta == "consumer-open":
        meta = "both"
    ctx.event(f"meta={meta}")
    pinfo = fm.Info(time=hs.T0, grid=(None if meta == "producer-open" else sg), units="m",
                    mask=(to_shape(smask, sshape, sorder) if smask is not None else fm.Mask.FLEX))
    # who states the target mask: the consumer's info | the adapter (out_mask=..., consumer flexible) | both (equal)
    tmask_by = case.get("tmask_by", "consumer") if tmask is not None else "consumer"
    cinfo = fm.Info(time=hs.T0, grid=(None if meta == "consumer-open" else tg), units=(None if meta == "consumer-open" else "m"),
                    mask=(to_shape(tmask, tshape, torder) if tmask is not None and tmask_by != "adapter" else fm.Mask.FLEX))
    kw = {}
    if tmask_by in ("adapter", "both"):
        kw["out_mask"] = to_shape(tmask, tshape, torder)
        ctx.event(f"target-mask-stated-by={tmask_by}")
    if meta == "consumer-open":
        kw["out_grid"] = tg
    if meta == "producer-open":
        kw["in_grid"] = sg
    ada = fm.adapters.RegridNearest(**kw) if method == "nearest" else fm.adapters.RegridLinear(fill_with_nearest=fill, **kw)
    out = fm.Output(name="o", info=pinfo)
    inp = fm.Input(name="i", info=cinfo)
    out >> ada >> inp
    inp2 = None
    if case.get("twin") and case["tgt"]["kind"] == "struct" and case["tgt"]["cfg"]["cls"] != "esri" and meta == "both" and tmask is None:
        # a second consumer of the same adapter: equal grid, but flattened in the other order
        cfg2 = dict(hg.scaled(case["tgt"]["cfg"], sc), order=("C" if torder == "F" else "F"))
        inp2 = fm.Input(name="j", info=fm.Info(time=hs.T0, grid=hg.build(cfg2), units="m", mask=fm.Mask.FLEX))
        ada >> inp2
        ctx.event("two-targets-different-order")
    inp.ping()
    if inp2 is not None:
        inp2.ping()
    info = f" | case {case}"
    try:
        if inp2 is not None and case.get("twin") == "first":
            inp2.exchange_info()
        inp.exchange_info()
        if inp2 is not None and case.get("twin") != "first":
            inp2.exchange_info()
    except (fm.FinamMetaDataError, fm.FinamDataError) as e:
        if method == "linear" and not fill and tmask is not None:
            ctx.event("linear-domain-not-covered(refused)")  # documented refusal: fixed target mask not covered by the hull
            return
        ctx.violation(f"{method}-exchange-refused", f"{type(e).__name__}: {str(e)[:160]}" + info)
        return
    # metadata after the exchange: the input knows the target grid, units and time; the output the source grid
    ii = inp.info
    if ii.grid is None or ii.units is None or ii.time is None or ii.mask is None:
        ctx.violation("meta-unset-after-exchange", f"input info has an unset field after the exchange: {ii!r}" + info)
        return
    if not (ii.grid == tg):
        ctx.violation("meta-target-grid", f"input grid {ii.grid!r} is not the target grid ({meta})" + info)
        return
    if str(ii.units) != "m":
        ctx.violation("meta-units", f"input units {ii.units!s}, delivered m" + info)
        return
    if out.info.grid is None or not (out.info.grid == sg):
        ctx.violation("meta-source-grid", f"output grid {out.info.grid!r} is not the source grid ({meta})" + info)
        return
    out.push_data(payload, hs.T0)
    if inp2 is not None:
        r2 = inp2.pull_data(hs.T0)  # same shape (order only affects flattening): must carry the same located values
    r = inp.pull_data(hs.T0)
    if inp2 is not None and not (
        np.array_equal(np.ma.getmaskarray(r2.magnitude), np.ma.getmaskarray(r.magnitude))
        and np.array_equal(np.ma.getdata(r2.magnitude)[~np.ma.getmaskarray(r2.magnitude)], np.ma.getdata(r.magnitude)[~np.ma.getmaskarray(r.magnitude)])
    ):
        ctx.violation("two-targets-differ", "two consumers of one regridding adapter with equal grids (different flattening order) receive different fields" + info)
        return
    m = r.magnitude
    if tuple(m.shape) != (1,) + tuple(tshape):
        ctx.violation("shape", f"result shape {m.shape}, target data shape {tshape}" + info)
        return
    got = np.ma.getdata(m[0]).ravel(order=torder)
    gmask = np.ma.getmaskarray(m[0]).ravel(order=torder)
    tgt_keep = np.ones(nt, bool) if tmask is None else ~tmask
    Ssel, vsel = S[src_keep], vals[src_keep]
    D = np.sqrt(((T[:, None, :] - Ssel[None, :, :]) ** 2).sum(axis=2))
    dmin = D.min(axis=1)
    if np.any(np.isclose(got[~gmask], SENTINEL)):
        ctx.violation("masked-source-value-used", "a masked source value appears in the unmasked result" + info)
        return
    if method == "nearest":
        if np.any(gmask[tgt_keep]) or np.any(~gmask[~tgt_keep]):
            ctx.violation("nearest-mask", f"result mask differs from the target mask (masked target cells must stay masked, others unmasked)" + info)
            return
        for j in np.nonzero(tgt_keep)[0]:
            ok = vsel[D[j] <= dmin[j] + 1e-9]
            if not np.any(np.isclose(got[j], ok, rtol=0, atol=1e-9)):
                ctx.violation("nearest-value", f"target {j} at {T[j]}: got {got[j]}, nearest unmasked source value(s) {ok[:3]}" + info)
                return
        return
    # ---- linear
    inside = tri.find_simplex(T, tol=1e-9) >= 0
    # distance to the hull boundary: use barycentric coordinates margin
    near_boundary = np.zeros(nt, bool)
    simp = tri.find_simplex(T, tol=1e-9)
    for j in range(nt):
        if simp[j] >= 0:
            tr = tri.transform[simp[j]]
            b = tr[:dim].dot(T[j] - tr[dim])
            bary = np.append(b, 1 - b.sum())
            # inside some simplex; boundary of the hull only matters if the simplex facet is on the hull
            nb = tri.neighbors[simp[j]]
            if np.any((bary < 1e-6) & (nb == -1)):
                near_boundary[j] = True
        else:
            # outside: is it within 1e-6 of the hull? approximate with the distance to the nearest source simplex test
            near_boundary[j] = tri.find_simplex(T[j], tol=1e-5) >= 0
    exp_aff = T @ coef + 3.0
    skipped = 0
    for j in range(nt):
        if near_boundary[j]:
            skipped += 1
            continue
        if not tgt_keep[j]:
            if not gmask[j]:
                ctx.violation("linear-target-mask", f"masked target cell {j} is unmasked in the result" + info)
                return
            continue
        if inside[j]:
            if gmask[j] or abs(got[j] - exp_aff[j]) > 1e-9 * max(1.0, abs(exp_aff[j])):
                ctx.violation("linear-affine", f"target {j} at {T[j]} inside the hull: got {'masked' if gmask[j] else got[j]}, affine field gives {exp_aff[j]}" + info)
                return
        elif fill:
            ok = vsel[D[j] <= dmin[j] + 1e-9]
            if gmask[j] or not np.any(np.isclose(got[j], ok, rtol=0, atol=1e-9)):
                ctx.violation("linear-fill", f"target {j} at {T[j]} outside the hull: got {'masked' if gmask[j] else got[j]}, nearest source value(s) {ok[:3]}" + info)
                return
        elif not gmask[j]:
            ctx.violation("linear-outside-unmasked", f"target {j} at {T[j]} outside the hull is not masked (value {got[j]})" + info)
            return
    ctx.event("hull-boundary-skipped", skipped)


# ------------------------------------------------------------------ generators
@st.composite
def any_grid(draw, dim, allow_struct=True):
    kinds = (["struct", "struct"] if allow_struct else []) + (["ucells", "upoints"] if dim == 2 else ["upoints"])
    k = draw(st.sampled_from(kinds))
    if k == "struct":
        classes = ("rect", "uni", "esri") if dim == 2 else ("rect", "uni")
        return {"kind": "struct", "cfg": draw(hg.grid_cfg(classes=classes, dims=(dim,), min_len=2, max_len=4))}
    if k == "ucells":
        return {
            "kind": "ucells",
            "nx": draw(st.integers(2, 4)),
            "ny": draw(st.integers(2, 4)),
            "jit": draw(st.lists(st.integers(-2, 2), min_size=6, max_size=12)),
            "tri": draw(st.sampled_from([True, False, "mixed", "mixed"])),
            "loc": draw(st.sampled_from(["CELLS", "POINTS"])),
            "order": draw(st.sampled_from("CF")),
        }
    n = draw(st.integers(dim + 2, 9))
    pts = draw(st.lists(st.tuples(*[st.integers(-8, 24) for _ in range(dim)]), min_size=n, max_size=n, unique=True))
    return {"kind": "upoints", "pts": [[c / 4.0 for c in p] for p in pts], "order": draw(st.sampled_from("CF"))}


@st.composite
def nearest_case(draw):
    dim = draw(st.sampled_from([1, 2, 2, 2, 3]))
    return {
        "src": draw(any_grid(dim)),
        "tgt": draw(any_grid(dim)),
        "smask": draw(st.one_of(st.none(), st.integers(1, 2**40))),
        "tmask": draw(st.one_of(st.none(), st.none(), st.integers(1, 2**40))),
        "method": "nearest",
        "fill": False,
        "scale": draw(st.sampled_from([1.0, 1.0, 1.0, 1.0e-9, 1.0e-6, 1.0e3, 1.0e6])),
        "meta": draw(st.sampled_from(["both", "both", "consumer-open", "producer-open"])),
        "tmask_by": draw(st.sampled_from(["consumer", "consumer", "adapter", "both"])),
        "twin": draw(st.sampled_from([None, None, "first", "second"])),
    }


@st.composite
def identity_case(draw):
    base = draw(hg.grid_cfg(classes=("rect", "uni"), min_len=2, max_len=4))
    lens = [len(a) for a in hg.user_axes(base)]

    def lay():
        return draw(st.sampled_from("CF")), draw(st.booleans()), [draw(st.booleans()) for _ in lens]

    return {
        "src": {"kind": "struct", "cfg": hg.same_geometry_layout(base, *lay())},
        "tgt": {"kind": "struct", "cfg": hg.same_geometry_layout(base, *lay())},
        "smask": None,
        "tmask": draw(st.one_of(st.none(), st.integers(1, 2**40))),
        "method": "nearest",
        "fill": False,
    }


@st.composite
def linear_case(draw):
    dim = draw(st.sampled_from([2, 2, 3]))
    src = draw(any_grid(dim))
    smask = draw(st.one_of(st.none(), st.integers(1, 2**40)))
    if src["kind"] == "struct" and smask is None:
        smask = draw(st.integers(1, 2**40))  # structured sources only through the masked (unstructured) path
    return {
        "src": src,
        "tgt": draw(any_grid(dim)),
        "smask": smask,
        "tmask": draw(st.one_of(st.none(), st.none(), st.none(), st.integers(1, 2**40))),
        "method": "linear",
        "fill": draw(st.booleans()),
        "scale": draw(st.sampled_from([1.0, 1.0, 1.0, 1.0e-3, 1.0e3])),  # (Qhull's own precision limits tinier units)
        "meta": draw(st.sampled_from(["both", "both", "consumer-open", "producer-open"])),
        "tmask_by": draw(st.sampled_from(["consumer", "consumer", "adapter", "both"])),
        "twin": draw(st.sampled_from([None, None, "first", "second"])),
    }


@st.composite
def shifted_case(draw):
    """two rasters of equal shape in projected coordinates (millions of metres), the target shifted by a fraction
    of a cell: almost-equal geometries must still be regridded by distance"""
    dim = draw(st.sampled_from([1, 2, 2, 3]))
    dims = [draw(st.integers(3, 6)) for _ in range(dim)]
    sp = draw(st.sampled_from([25.0, 10.0, 100.0, 0.5]))
    origin = [draw(st.sampled_from([4400000.0, 5600000.0, 320000.0, 12.0])) for _ in range(dim)]
    shift = [sp * draw(st.sampled_from([0.0, 0.3, 0.6, 0.9, -0.6])) for _ in range(dim)]

    def cfg(o):
        return {"cls": "uni", "dims": dims, "spacing": [sp] * dim, "origin": o, "inc": [draw(st.booleans()) for _ in range(dim)],
                "order": draw(st.sampled_from("CF")), "rev": draw(st.booleans()), "loc": draw(st.sampled_from(["CELLS", "POINTS"]))}

    a = cfg(origin)
    b = cfg([o + s for o, s in zip(origin, shift)])
    b["loc"] = a["loc"]
    return {"src": {"kind": "struct", "cfg": a}, "tgt": {"kind": "struct", "cfg": b}, "smask": None,
            "tmask": draw(st.one_of(st.none(), st.integers(1, 2**40))), "method": "nearest", "fill": False}


def enum_identity(tier):
    """nearest regridding between every ordered pair of layouts of one geometry must be the identity"""
    from .c15 import base_cfgs, layouts

    for base, lens in base_cfgs((3, 2, 2), classes=("uni",)):
        ls = list(layouts(len(lens), lens))
        if len(lens) == 3:
            ls = ls[::3]
        for la, lb in itertools.product(ls, repeat=2):
            yield {
                "src": {"kind": "struct", "cfg": hg.same_geometry_layout(base, *la)},
                "tgt": {"kind": "struct", "cfg": hg.same_geometry_layout(base, *lb)},
                "smask": None, "tmask": None, "method": "nearest", "fill": False,
            }


# ------------------------------------------------------------------ large sources / targets (index widths, chunking)
def _large_grid(g):
    """-> (finam grid, flat locations, data_shape, order); compact descriptions of big grids"""
    import finam as fm

    if g["kind"] == "uni":
        cfg = {"cls": "uni", "dims": g["dims"], "spacing": g["spacing"], "origin": g["origin"], "inc": g.get("inc", [True] * len(g["dims"])),
               "order": g.get("order", "F"), "rev": g.get("rev", False), "loc": g.get("loc", "CELLS")}
        grid = hg.build(cfg)
        _LOC, shape, order = hg.ref(cfg)
        return grid, hg.flat_locs(cfg), tuple(shape), order
    # quasi-random points (Kronecker sequence: deterministic, pairwise distinct, no RNG)
    k = np.arange(1, g["n"] + 1, dtype=float)
    alphas = [0.7548776662466927, 0.5698402909980532, 0.8191725133961645][: g["dim"]]
    pts = np.stack([(k * a) % 1.0 for a in alphas], axis=1) * np.asarray(g["extent"], float) + np.asarray(g["origin"], float)
    return fm.UnstructuredPoints(pts), pts, (len(pts),), "C"


def _hash_mask(n, num, den, salt):
    if not num:
        return None
    k = np.arange(n, dtype=np.int64)
    return ((k * 2654435761 + salt) % 1000003) % den < num


def check_large(case, ctx):
    """sources (or targets) with more than 2^16 locations: nearest / linear+fill against a chunked brute-force
    Euclidean reference - regridding fine to coarse, coarse to fine and fine to fine"""
    import finam as fm

    sg, S, sshape, sorder = _large_grid(case["src"])
    tg, T, tshape, torder = _large_grid(case["tgt"])
    ns, nt, dim = len(S), len(T), S.shape[1]
    smask = _hash_mask(ns, *case.get("smask", (0, 1)), 17)
    tmask = _hash_mask(nt, *case.get("tmask", (0, 1)), 91)
    method = case["method"]
    ctx.nontrivial(True)
    ctx.event(f"{method}: {ns} -> {nt} locations, {dim}D")
    coef = np.array([1.5, -2.0, 0.75])[:dim]
    unit = float(case.get("unit", 1.0))  # length unit of the lattice: tie tolerance and value coding are relative to it
    wloc = np.array([1.0e6, 1.0e3, 1.0])[:dim] / unit  # nearest: the value encodes the location (distinct per node)
    vals = S @ wloc if method == "nearest" else S @ coef + 3.0
    keep = np.ones(ns, bool) if smask is None else ~smask
    data = vals.copy()
    data[~keep] = SENTINEL
    payload = to_shape(data, sshape, sorder)
    if smask is not None:
        payload = np.ma.array(payload, mask=to_shape(smask, sshape, sorder))
    pinfo = fm.Info(time=hs.T0, grid=sg, units="m", mask=(to_shape(smask, sshape, sorder) if smask is not None else fm.Mask.FLEX))
    cinfo = fm.Info(time=hs.T0, grid=tg, units="m", mask=(to_shape(tmask, tshape, torder) if tmask is not None else fm.Mask.FLEX))
    ada = fm.adapters.RegridNearest() if method == "nearest" else fm.adapters.RegridLinear(fill_with_nearest=True)
    out, inp = fm.Output(name="o", info=pinfo), fm.Input(name="i", info=cinfo)
    out >> ada >> inp
    inp.ping()
    inp.exchange_info()
    out.push_data(payload, hs.T0)
    m = inp.pull_data(hs.T0).magnitude
    info = f" | case {case}"
    if tuple(m.shape) != (1,) + tuple(tshape):
        ctx.violation("large-shape", f"result shape {m.shape}, target data shape {tshape}" + info)
        return
    got = np.ma.getdata(m[0]).ravel(order=torder)
    gmask = np.ma.getmaskarray(m[0]).ravel(order=torder)
    tkeep = np.ones(nt, bool) if tmask is None else ~tmask
    if np.any(gmask[tkeep]) or np.any(~gmask[~tkeep]):
        ctx.violation("large-mask", "result mask differs from the target mask" + info)
        return
    Ssel, vsel = S[keep], vals[keep]
    lo, hi = Ssel.min(axis=0), Ssel.max(axis=0)
    inner_lo, inner_hi = lo + 0.1 * (hi - lo), hi - 0.1 * (hi - lo)
    bad = []
    separable = method == "nearest" and case["src"]["kind"] == "uni" and smask is None
    if separable:
        # unmasked product grid: the Euclidean-nearest location is the per-axis nearest coordinate (both on ties)
        ctx.event("reference=per-axis nearest (product grid)")
        cand = []  # per axis: (n targets, 2) candidate coordinates, NaN where not within 1e-9 of the minimum
        for d in range(dim):
            c = np.unique(S[:, d])
            i = np.clip(np.searchsorted(c, T[:, d]), 1, len(c) - 1) if len(c) > 1 else np.zeros(nt, int)
            two = np.stack([c[np.maximum(i - 1, 0)], c[i]], axis=1)
            dist = np.abs(two - T[:, d][:, None])
            two[dist > dist.min(axis=1)[:, None] + 1e-9 * unit] = np.nan
            cand.append(two)
        okv = np.zeros(nt, bool)
        for combo in itertools.product((0, 1), repeat=dim):
            v = sum(cand[d][:, combo[d]] * wloc[d] for d in range(dim))
            okv |= np.isclose(v, got, rtol=1e-12, atol=1e-6)
        bad = np.nonzero(tkeep & ~okv)[0].tolist()
    elif int(tkeep.sum()) > 4000:
        raise AssertionError("harness: brute-force reference only for coarse targets")
    for a in ([] if separable else range(0, nt, 64)):
        idx = np.arange(a, min(nt, a + 64))
        idx = idx[tkeep[idx]]
        if not len(idx):
            continue
        D = np.sqrt(((T[idx][:, None, :] - Ssel[None, :, :]) ** 2).sum(axis=2))
        near = D <= D.min(axis=1)[:, None] + 1e-9 * unit
        if method == "nearest":
            okv = np.any(near & np.isclose(vsel[None, :], got[idx][:, None], rtol=1e-12, atol=1e-6), axis=1)
        else:
            outside = np.any((T[idx] < lo - 1e-6) | (T[idx] > hi + 1e-6), axis=1)  # outside the bounding box => outside the hull
            inside = np.all((T[idx] > inner_lo) & (T[idx] < inner_hi), axis=1)  # well inside 90000 quasi-random points' hull
            aff = T[idx] @ coef + 3.0
            ok_in = np.abs(got[idx] - aff) <= 1e-7 * np.maximum(1.0, np.abs(aff))
            ok_out = np.any(near & np.isclose(vsel[None, :], got[idx][:, None], rtol=1e-12, atol=1e-6), axis=1)
            okv = np.where(inside, ok_in, np.where(outside, ok_out, True))  # the rim between is not judged
        bad += idx[~okv].tolist()
    if bad:
        j = bad[0]
        ctx.violation(f"large-{method}-value", f"{len(bad)} of {int(tkeep.sum())} target locations wrong, e.g. target {j} at {T[j]}: got {got[j]}" + info)


def enum_large(tier):
    fine = {"kind": "uni", "dims": [301, 301], "spacing": [1.0, 1.0], "origin": [0.0, 0.0]}
    coarse = {"kind": "uni", "dims": [22, 23], "spacing": [13.7, 13.1], "origin": [0.37, 0.21]}
    yield {"src": fine, "tgt": coarse, "method": "nearest"}
    yield {"src": dict(fine, order="C", rev=True, inc=[True, False]), "tgt": dict(coarse, order="C", inc=[False, True]), "method": "nearest", "smask": (3, 10), "tmask": (2, 10)}
    yield {"src": dict(fine, dims=[257, 257]), "tgt": coarse, "method": "nearest"}  # exactly 2^16 source cells
    yield {"src": dict(fine, dims=[258, 257]), "tgt": coarse, "method": "nearest", "smask": (1, 50)}
    yield {"src": dict(fine, loc="POINTS", dims=[300, 300]), "tgt": {"kind": "points", "n": 1200, "dim": 2, "extent": [299.0, 299.0], "origin": [0.0, 0.0]}, "method": "nearest"}
    yield {"src": {"kind": "points", "n": 90000, "dim": 2, "extent": [300.0, 300.0], "origin": [0.0, 0.0]}, "tgt": coarse, "method": "nearest", "smask": (1, 4)}
    yield {"src": {"kind": "points", "n": 70000, "dim": 2, "extent": [250.0, 250.0], "origin": [20.0, 20.0]}, "tgt": coarse, "method": "linear"}
    yield {"src": {"kind": "points", "n": 140000, "dim": 2, "extent": [250.0, 250.0], "origin": [20.0, 20.0]}, "tgt": dict(coarse, order="C", rev=True), "method": "linear", "smask": (1, 3)}
    yield {"src": {"kind": "uni", "dims": [42, 42, 41], "spacing": [1.0, 1.0, 1.0], "origin": [0.0, 0.0, 0.0]}, "tgt": {"kind": "uni", "dims": [7, 6, 7], "spacing": [6.1, 7.3, 5.9], "origin": [0.4, 0.2, 0.3]}, "method": "nearest", "smask": (1, 7)}
    yield {"src": coarse, "tgt": dict(fine, dims=[281, 280], origin=[2.0, 3.0]), "method": "nearest", "tmask": (1, 9)}  # coarse to fine
    yield {"src": fine, "tgt": dict(fine, dims=[271, 281], spacing=[1.1, 1.05], origin=[0.3, 0.2], order="C"), "method": "nearest"}  # fine to fine
    # near ties: every target sits 2 millionths of a cell off the bisector of two source cells (1 km cells, 2 mm)
    km = {"kind": "uni", "dims": [31, 29], "spacing": [1000.0, 1000.0], "origin": [0.0, 0.0]}
    for off in (500.002, 499.998):
        yield {"src": km, "tgt": dict(km, dims=[29, 27], origin=[off, off], order="C"), "method": "nearest"}
        yield {"src": dict(km, order="C", rev=True, inc=[False, True]), "tgt": dict(km, dims=[29, 27], origin=[off, 250.0]), "method": "nearest", "tmask": (1, 5)}
    # nanometre and megametre lattices (identity between layouts and a shifted target)
    for unit in (2.0e-9, 3.0e6):
        g = {"kind": "uni", "dims": [6, 7], "spacing": [unit, unit], "origin": [0.0, unit]}
        yield {"src": g, "tgt": dict(g, order="C", rev=True, inc=[False, True]), "method": "nearest", "unit": unit}
        yield {"src": g, "tgt": dict(g, origin=[0.3 * unit, 1.2 * unit]), "method": "nearest", "unit": unit}


def parts():
    return [
        Part("identity_enum", check, enumerate=enum_identity, exhaustive=True),
        Part("nearest", check, strategy=nearest_case(), budget={"quick": 1200, "thorough": 40000}),
        Part("identity_gen", check, strategy=identity_case(), budget={"quick": 300, "thorough": 10000}),
        Part("shifted_rasters", check, strategy=shifted_case(), budget={"quick": 300, "thorough": 10000}),
        Part("linear", check, strategy=linear_case(), budget={"quick": 700, "thorough": 24000}),
        Part("large_enum", check_large, enumerate=enum_large, exhaustive=True),
    ]
