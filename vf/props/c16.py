"""C16 - regridding puts the right source value at each target location."""
import itertools

import numpy as np
from hypothesis import strategies as st

from .. import h_grid as hg
from .. import h_slot as hs
from ..runner import Part

PROP = "C16"
RULE = (
    "source/target grid pairs from uniform, rectilinear, ESRI (all layout flags), unstructured cells "
    "(quads or triangles on a jittered lattice, cell or point data) and unstructured points in 1-3 D, "
    "random masks on either side (never completely masked), run through a real Output >> RegridNearest / "
    "RegridLinear >> Input link (metadata exchange builds the interpolator, first publication is pulled). "
    "Oracle nearest: brute-force Euclidean argmin over the unmasked reference locations (any source within "
    "1e-9 of the minimum distance), masked target cells masked, masked source values (sentinel) nowhere; "
    "identity between layouts of one geometry. Oracle linear (unstructured or masked sources): an affine "
    "field is reproduced to 1e-9 strictly inside the convex hull of the unmasked source locations, outside "
    "masked or - with fill_with_nearest - equal to the nearest source value. non-trivial = a non-default "
    "layout flag on each side, or a mask with masked and unmasked cells. distinct = canonical JSON."
)
ASSUMPTIONS = [
    "reference locations from vf/h_grid.py (structured) / own mean-of-nodes (unstructured)",
    "scipy.spatial.Delaunay is trusted for the inside-hull test of the linear oracle only; targets within 1e-6 of the hull boundary are skipped and counted",
    "structured unmasked sources with RegridLinear are not generated (path outside the statement; broken with the installed scipy)",
    "CRS transformations are not covered",
]
SENTINEL = -9.0e9


# ------------------------------------------------------------------ grids
def locs_and_grid(g):
    """-> (finam grid, flat locations (n, dim), data_shape, order)"""
    import finam as fm

    if g["kind"] == "struct":
        cfg = g["cfg"]
        grid = hg.build(cfg)
        _LOC, shape, order = hg.ref(cfg)
        return grid, hg.flat_locs(cfg), tuple(shape), order
    if g["kind"] == "upoints":
        pts = np.asarray(g["pts"], float)
        return fm.UnstructuredPoints(pts, order=g.get("order", "C")), pts, (len(pts),), g.get("order", "C")
    # unstructured cells on a jittered lattice
    nx, ny = g["nx"], g["ny"]
    jit = g["jit"]
    pts = []
    for j in range(ny):
        for i in range(nx):
            k = j * nx + i
            pts.append([i + jit[(2 * k) % len(jit)] / 8.0, j + jit[(2 * k + 1) % len(jit)] / 8.0])
    pts = np.asarray(pts, float)
    cells, types = [], []
    for j in range(ny - 1):
        for i in range(nx - 1):
            a, b, c, d = j * nx + i, j * nx + i + 1, (j + 1) * nx + i + 1, (j + 1) * nx + i
            tri = g["tri"] if g["tri"] != "mixed" else (i + j) % 2 == 0
            if tri:
                cells += [[a, b, c], [a, c, d]]
                types += [fm.CellType.TRI, fm.CellType.TRI]
            else:
                cells.append([a, b, c, d])
                types.append(fm.CellType.QUAD)
    width = max(len(c) for c in cells)
    padded = [c + [-1] * (width - len(c)) for c in cells]  # mixed meshes: unused entries are -1
    grid = fm.UnstructuredGrid(pts, padded, types, data_location=g["loc"], order=g.get("order", "C"))
    if g["loc"] == "POINTS":
        return grid, pts, (len(pts),), g.get("order", "C")
    centers = np.array([pts[c].mean(axis=0) for c in cells])
    return grid, centers, (len(cells),), g.get("order", "C")


def mask_from_bits(bits, n, shape, order, force=False):
    if bits is None:
        return None
    m = np.array([(bits >> (k % 60)) & 1 for k in range(n)], dtype=bool)
    if m.all():
        m[0] = False
    if not m.any():
        if not force or n < 2:
            return None
        m[n - 1] = True
    return m  # flat, in grid order


def to_shape(flat, shape, order):
    return np.asarray(flat).reshape(shape, order=order)


# ------------------------------------------------------------------ check
def check(case, ctx):
    import finam as fm

    sg, S, sshape, sorder = locs_and_grid(case["src"])
    tg, T, tshape, torder = locs_and_grid(case["tgt"])
    ns, nt = len(S), len(T)
    smask = mask_from_bits(case["smask"], ns, sshape, sorder, force=(case["method"] == "linear" and case["src"]["kind"] == "struct"))
    tmask = mask_from_bits(case["tmask"], nt, tshape, torder)
    method, fill = case["method"], case["fill"]
    dim = S.shape[1]
    ctx.event(f"{method}{'-fill' if fill else ''}:{case['src']['kind']}->{case['tgt']['kind']}:{dim}D")

    def nd(g):
        return hg.nondefault_flags(g["cfg"]) if g["kind"] == "struct" else 0

    ctx.nontrivial((nd(case["src"]) >= 1 and nd(case["tgt"]) >= 1) or smask is not None or tmask is not None)
    if smask is not None:
        ctx.event("source-mask")
    if tmask is not None:
        ctx.event("target-mask")
    # field
    if method == "nearest":
        vals = 100.0 + 7.0 * np.arange(ns)
    else:
        coef = np.array([1.5, -2.0, 0.75])[:dim]
        vals = S @ coef + 3.0
    src_keep = np.ones(ns, bool) if smask is None else ~smask
    data = vals.copy()
    data[~src_keep] = SENTINEL
    payload = to_shape(data, sshape, sorder)
    if smask is not None:
        payload = np.ma.array(payload, mask=to_shape(smask, sshape, sorder))
    if method == "linear":
        from scipy.spatial import Delaunay, QhullError  # pylint: disable=import-outside-toplevel,no-name-in-module

        try:
            if src_keep.sum() < dim + 1:
                raise ValueError("too few points")
            tri = Delaunay(S[src_keep])
        except (QhullError, ValueError):
            ctx.event("degenerate-hull(skipped)")  # precondition of linear interpolation, not generated on purpose
            return
        if case["src"]["kind"] == "struct" and smask is None:
            ctx.event("structured-unmasked-linear(skipped)")
            return
    # who declares the grids: both ends | the adapter supplies the target grid (consumer leaves it open) |
    # the adapter supplies the source grid (producer leaves it open)  [C07: metadata through rewriting adapters]
    meta = case.get("meta", "both")
    if smask is not None and meta == "producer-open":
        meta = "both"  # a fixed mask needs the producer's own grid
    if tmask is not None and meta == "consumer-open":
        meta = "both"
    ctx.event(f"meta={meta}")
    pinfo = fm.Info(time=hs.T0, grid=(None if meta == "producer-open" else sg), units="m",
                    mask=(to_shape(smask, sshape, sorder) if smask is not None else fm.Mask.FLEX))
    # who states the target mask: the consumer's info | the adapter (out_mask=..., consumer flexible) | both (equal)
    tmask_by = case.get("tmask_by", "consumer") if tmask is not None else "consumer"
    cinfo = fm.Info(time=hs.T0, grid=(None if meta == "consumer-open" else tg), units=(None if meta == "consumer-open" else "m"),
                    mask=(to_shape(tmask, tshape, torder) if tmask is not None and tmask_by != "adapter" else fm.Mask.FLEX))
    kw = {}
    if tmask_by in ("adapter", "both"):
        kw["out_mask"] = to_shape(tmask, tshape, torder)
        ctx.event(f"target-mask-stated-by={tmask_by}")
    if meta == "consumer-open":
        kw["out_grid"] = tg
    if meta == "producer-open":
        kw["in_grid"] = sg
    ada = fm.adapters.RegridNearest(**kw) if method == "nearest" else fm.adapters.RegridLinear(fill_with_nearest=fill, **kw)
    out = fm.Output(name="o", info=pinfo)
    inp = fm.Input(name="i", info=cinfo)
    out >> ada >> inp
    inp2 = None
    if case.get("twin") and case["tgt"]["kind"] == "struct" and case["tgt"]["cfg"]["cls"] != "esri" and meta == "both" and tmask is None:
        # a second consumer of the same adapter: equal grid, but flattened in the other order
        cfg2 = dict(case["tgt"]["cfg"], order=("C" if torder == "F" else "F"))
        inp2 = fm.Input(name="j", info=fm.Info(time=hs.T0, grid=hg.build(cfg2), units="m", mask=fm.Mask.FLEX))
        ada >> inp2
        ctx.event("two-targets-different-order")
    inp.ping()
    if inp2 is not None:
        inp2.ping()
    info = f" | case {case}"
    try:
        if inp2 is not None and case.get("twin") == "first":
            inp2.exchange_info()
        inp.exchange_info()
        if inp2 is not None and case.get("twin") != "first":
            inp2.exchange_info()
    except (fm.FinamMetaDataError, fm.FinamDataError) as e:
        if method == "linear" and not fill and tmask is not None:
            ctx.event("linear-domain-not-covered(refused)")  # documented refusal: fixed target mask not covered by the hull
            return
        ctx.violation(f"{method}-exchange-refused", f"{type(e).__name__}: {str(e)[:160]}" + info)
        return
    # metadata after the exchange: the input knows the target grid, units and time; the output the source grid
    ii = inp.info
    if ii.grid is None or ii.units is None or ii.time is None or ii.mask is None:
        ctx.violation("meta-unset-after-exchange", f"input info has an unset field after the exchange: {ii!r}" + info)
        return
    if not (ii.grid == tg):
        ctx.violation("meta-target-grid", f"input grid {ii.grid!r} is not the target grid ({meta})" + info)
        return
    if str(ii.units) != "m":
        ctx.violation("meta-units", f"input units {ii.units!s}, delivered m" + info)
        return
    if out.info.grid is None or not (out.info.grid == sg):
        ctx.violation("meta-source-grid", f"output grid {out.info.grid!r} is not the source grid ({meta})" + info)
        return
    out.push_data(payload, hs.T0)
    if inp2 is not None:
        r2 = inp2.pull_data(hs.T0)  # same shape (order only affects flattening): must carry the same located values
    r = inp.pull_data(hs.T0)
    if inp2 is not None and not (
        np.array_equal(np.ma.getmaskarray(r2.magnitude), np.ma.getmaskarray(r.magnitude))
        and np.array_equal(np.ma.getdata(r2.magnitude)[~np.ma.getmaskarray(r2.magnitude)], np.ma.getdata(r.magnitude)[~np.ma.getmaskarray(r.magnitude)])
    ):
        ctx.violation("two-targets-differ", "two consumers of one regridding adapter with equal grids (different flattening order) receive different fields" + info)
        return
    m = r.magnitude
    if tuple(m.shape) != (1,) + tuple(tshape):
        ctx.violation("shape", f"result shape {m.shape}, target data shape {tshape}" + info)
        return
    got = np.ma.getdata(m[0]).ravel(order=torder)
    gmask = np.ma.getmaskarray(m[0]).ravel(order=torder)
    tgt_keep = np.ones(nt, bool) if tmask is None else ~tmask
    Ssel, vsel = S[src_keep], vals[src_keep]
    D = np.sqrt(((T[:, None, :] - Ssel[None, :, :]) ** 2).sum(axis=2))
    dmin = D.min(axis=1)
    if np.any(np.isclose(got[~gmask], SENTINEL)):
        ctx.violation("masked-source-value-used", "a masked source value appears in the unmasked result" + info)
        return
    if method == "nearest":
        if np.any(gmask[tgt_keep]) or np.any(~gmask[~tgt_keep]):
            ctx.violation("nearest-mask", f"result mask differs from the target mask (masked target cells must stay masked, others unmasked)" + info)
            return
        for j in np.nonzero(tgt_keep)[0]:
            ok = vsel[D[j] <= dmin[j] + 1e-9]
            if not np.any(np.isclose(got[j], ok, rtol=0, atol=1e-9)):
                ctx.violation("nearest-value", f"target {j} at {T[j]}: got {got[j]}, nearest unmasked source value(s) {ok[:3]}" + info)
                return
        return
    # ---- linear
    inside = tri.find_simplex(T, tol=1e-9) >= 0
    # distance to the hull boundary: use barycentric coordinates margin
    near_boundary = np.zeros(nt, bool)
    simp = tri.find_simplex(T, tol=1e-9)
    for j in range(nt):
        if simp[j] >= 0:
            tr = tri.transform[simp[j]]
            b = tr[:dim].dot(T[j] - tr[dim])
            bary = np.append(b, 1 - b.sum())
            # inside some simplex; boundary of the hull only matters if the simplex facet is on the hull
            nb = tri.neighbors[simp[j]]
            if np.any((bary < 1e-6) & (nb == -1)):
                near_boundary[j] = True
        else:
            # outside: is it within 1e-6 of the hull? approximate with the distance to the nearest source simplex test
            near_boundary[j] = tri.find_simplex(T[j], tol=1e-5) >= 0
    exp_aff = T @ coef + 3.0
    skipped = 0
    for j in range(nt):
        if near_boundary[j]:
            skipped += 1
            continue
        if not tgt_keep[j]:
            if not gmask[j]:
                ctx.violation("linear-target-mask", f"masked target cell {j} is unmasked in the result" + info)
                return
            continue
        if inside[j]:
            if gmask[j] or abs(got[j] - exp_aff[j]) > 1e-9 * max(1.0, abs(exp_aff[j])):
                ctx.violation("linear-affine", f"target {j} at {T[j]} inside the hull: got {'masked' if gmask[j] else got[j]}, affine field gives {exp_aff[j]}" + info)
                return
        elif fill:
            ok = vsel[D[j] <= dmin[j] + 1e-9]
            if gmask[j] or not np.any(np.isclose(got[j], ok, rtol=0, atol=1e-9)):
                ctx.violation("linear-fill", f"target {j} at {T[j]} outside the hull: got {'masked' if gmask[j] else got[j]}, nearest source value(s) {ok[:3]}" + info)
                return
        elif not gmask[j]:
            ctx.violation("linear-outside-unmasked", f"target {j} at {T[j]} outside the hull is not masked (value {got[j]})" + info)
            return
    ctx.event("hull-boundary-skipped", skipped)


# ------------------------------------------------------------------ generators
@st.composite
def any_grid(draw, dim, allow_struct=True):
    kinds = (["struct", "struct"] if allow_struct else []) + (["ucells", "upoints"] if dim == 2 else ["upoints"])
    k = draw(st.sampled_from(kinds))
    if k == "struct":
        classes = ("rect", "uni", "esri") if dim == 2 else ("rect", "uni")
        return {"kind": "struct", "cfg": draw(hg.grid_cfg(classes=classes, dims=(dim,), min_len=2, max_len=4))}
    if k == "ucells":
        return {
            "kind": "ucells",
            "nx": draw(st.integers(2, 4)),
            "ny": draw(st.integers(2, 4)),
            "jit": draw(st.lists(st.integers(-2, 2), min_size=6, max_size=12)),
            "tri": draw(st.sampled_from([True, False, "mixed", "mixed"])),
            "loc": draw(st.sampled_from(["CELLS", "POINTS"])),
            "order": draw(st.sampled_from("CF")),
        }
    n = draw(st.integers(dim + 2, 9))
    pts = draw(st.lists(st.tuples(*[st.integers(-8, 24) for _ in range(dim)]), min_size=n, max_size=n, unique=True))
    return {"kind": "upoints", "pts": [[c / 4.0 for c in p] for p in pts], "order": draw(st.sampled_from("CF"))}


@st.composite
def nearest_case(draw):
    dim = draw(st.sampled_from([1, 2, 2, 2, 3]))
    return {
        "src": draw(any_grid(dim)),
        "tgt": draw(any_grid(dim)),
        "smask": draw(st.one_of(st.none(), st.integers(1, 2**40))),
        "tmask": draw(st.one_of(st.none(), st.none(), st.integers(1, 2**40))),
        "method": "nearest",
        "fill": False,
        "meta": draw(st.sampled_from(["both", "both", "consumer-open", "producer-open"])),
        "tmask_by": draw(st.sampled_from(["consumer", "consumer", "adapter", "both"])),
        "twin": draw(st.sampled_from([None, None, "first", "second"])),
    }


@st.composite
def identity_case(draw):
    base = draw(hg.grid_cfg(classes=("rect", "uni"), min_len=2, max_len=4))
    lens = [len(a) for a in hg.user_axes(base)]

    def lay():
        return draw(st.sampled_from("CF")), draw(st.booleans()), [draw(st.booleans()) for _ in lens]

    return {
        "src": {"kind": "struct", "cfg": hg.same_geometry_layout(base, *lay())},
        "tgt": {"kind": "struct", "cfg": hg.same_geometry_layout(base, *lay())},
        "smask": None,
        "tmask": draw(st.one_of(st.none(), st.integers(1, 2**40))),
        "method": "nearest",
        "fill": False,
    }


@st.composite
def linear_case(draw):
    dim = draw(st.sampled_from([2, 2, 3]))
    src = draw(any_grid(dim))
    smask = draw(st.one_of(st.none(), st.integers(1, 2**40)))
    if src["kind"] == "struct" and smask is None:
        smask = draw(st.integers(1, 2**40))  # structured sources only through the masked (unstructured) path
    return {
        "src": src,
        "tgt": draw(any_grid(dim)),
        "smask": smask,
        "tmask": draw(st.one_of(st.none(), st.none(), st.none(), st.integers(1, 2**40))),
        "method": "linear",
        "fill": draw(st.booleans()),
        "meta": draw(st.sampled_from(["both", "both", "consumer-open", "producer-open"])),
        "tmask_by": draw(st.sampled_from(["consumer", "consumer", "adapter", "both"])),
        "twin": draw(st.sampled_from([None, None, "first", "second"])),
    }


@st.composite
def shifted_case(draw):
    """two rasters of equal shape in projected coordinates (millions of metres), the target shifted by a fraction
    of a cell: almost-equal geometries must still be regridded by distance"""
    dim = draw(st.sampled_from([1, 2, 2, 3]))
    dims = [draw(st.integers(3, 6)) for _ in range(dim)]
    sp = draw(st.sampled_from([25.0, 10.0, 100.0, 0.5]))
    origin = [draw(st.sampled_from([4400000.0, 5600000.0, 320000.0, 12.0])) for _ in range(dim)]
    shift = [sp * draw(st.sampled_from([0.0, 0.3, 0.6, 0.9, -0.6])) for _ in range(dim)]

    def cfg(o):
        return {"cls": "uni", "dims": dims, "spacing": [sp] * dim, "origin": o, "inc": [draw(st.booleans()) for _ in range(dim)],
                "order": draw(st.sampled_from("CF")), "rev": draw(st.booleans()), "loc": draw(st.sampled_from(["CELLS", "POINTS"]))}

    a = cfg(origin)
    b = cfg([o + s for o, s in zip(origin, shift)])
    b["loc"] = a["loc"]
    return {"src": {"kind": "struct", "cfg": a}, "tgt": {"kind": "struct", "cfg": b}, "smask": None,
            "tmask": draw(st.one_of(st.none(), st.integers(1, 2**40))), "method": "nearest", "fill": False}


def enum_identity(tier):
    """nearest regridding between every ordered pair of layouts of one geometry must be the identity"""
    from .c15 import base_cfgs, layouts

    for base, lens in base_cfgs((3, 2, 2), classes=("uni",)):
        ls = list(layouts(len(lens), lens))
        if len(lens) == 3:
            ls = ls[::3]
        for la, lb in itertools.product(ls, repeat=2):
            yield {
                "src": {"kind": "struct", "cfg": hg.same_geometry_layout(base, *la)},
                "tgt": {"kind": "struct", "cfg": hg.same_geometry_layout(base, *lb)},
                "smask": None, "tmask": None, "method": "nearest", "fill": False,
            }


def parts():
    return [
        Part("identity_enum", check, enumerate=enum_identity, exhaustive=True),
        Part("nearest", check, strategy=nearest_case(), budget={"quick": 1200, "thorough": 40000}),
        Part("identity_gen", check, strategy=identity_case(), budget={"quick": 300, "thorough": 10000}),
        Part("shifted_rasters", check, strategy=shifted_case(), budget={"quick": 300, "thorough": 10000}),
        Part("linear", check, strategy=linear_case(), budget={"quick": 700, "thorough": 24000}),
    ]
