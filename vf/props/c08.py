"""C08 - data crossing a link keeps its values, time, units and shape."""
from datetime import timedelta

import numpy as np
from hypothesis import strategies as st

from .. import h_grid as hg
from .. import h_slot as hs
from .. import h_units as hu
from ..runner import Part
from .c15 import maskfn

PROP = "C08"
RULE = (
    "operation sequences on a real Output >> Input pair (optionally behind a pass-through adapter): "
    "publications in every payload form (python scalar, list, shaped / flat-in-grid-order / time-axis arrays, "
    "masked arrays, quantities in foreign compatible units, and refused forms: incompatible units, wrong size, "
    "array sharing memory with the previous one; optionally under a memory limit of 0-3.5 payloads, so that "
    "the RAM-to-disk transition falls on any publication) and pulls at exact publication times, exact midpoints, "
    "fractions between neighbours, before the oldest retained and after the newest publication; grid kinds "
    "NoGrid(0-2D)/uniform/rectilinear/ESRI layouts, unit pairs of one dimension from the catalogue, mask "
    "FLEX/NONE/fixed. Reference model keeps every publication in producer units. non-trivial = >=3 "
    "publications and a pull strictly between two of them (part backlog: 33-90 publications retained when the pulls "
    "begin), or a conversion with factor != 1, or a flat "
    "payload on an F-order grid with >=2 non-degenerate axes. distinct = canonical JSON."
    " int_payload_enum: int16/int32/int64/uint64 arrays over 9 unit pairs with whole-number factors, both routes (ends "
    "declare different units; quantity published in foreign units), magnitudes up to value*factor beyond the integer range: "
    "the pulled numbers are the physical conversion (rtol 1e-9); non-trivial = product outside the dtype's range."
)
ASSUMPTIONS = [
    "unit conversion oracle = hand-written catalogue (vf/h_units.py); rtol 1e-10",
    "'oldest retained' is read from Output.data[0] (C09 decides what may be retained)",
    "masked payloads are pushed only to slots whose metadata allows masks (FLEX or the same fixed mask)",
    "values under a mask are unspecified (compared at unmasked cells only)",
    "an array sharing memory with the previous publication must be refused while that publication is retained in "
    "memory; when it was spilled to a file nothing retained can alias it and acceptance (with correct values for "
    "both publications afterwards) is allowed",
]

DIMS = hu.by_dimension()
UNIT_GROUPS = [v for v in DIMS.values() if len(v) >= 2]


def _grid(spec):
    import finam as fm

    if spec[0] == "nogrid":
        return fm.NoGrid(len(spec[1])), tuple(spec[1]), "C", None
    g = hg.build(spec[1])
    LOC, shape, order = hg.ref(spec[1])
    return g, tuple(shape), order, LOC


def _close(got, exp, floor=1.0):
    exp = np.asarray(exp, float)
    scale = max(floor, float(np.max(np.abs(exp))) if exp.size else floor)
    return np.allclose(np.asarray(got, float), exp, rtol=1e-10, atol=1e-9 * scale)


def check(case, ctx):
    """a memory limit (multiples of one payload's size) makes later publications spill to disk, which must not
    change anything observable here - in particular the refusal of aliasing publications"""
    if case.get("limit") is None:
        return _check(case, ctx, None)
    import shutil
    import tempfile

    d = tempfile.mkdtemp(prefix="vf-c08-")
    try:
        ctx.event("with-memory-limit")
        return _check(case, ctx, d)
    finally:
        shutil.rmtree(d, ignore_errors=True)


def _check(case, ctx, memloc):
    import finam as fm
    from finam.data import tools

    g, shape, order, LOC = _grid(case["grid"])
    pu, cu, mk = case["pu"], case["cu"], case["mask"]
    n = int(np.prod(shape)) if shape else 1
    fixed = None
    if mk == "fixed":
        if LOC is None:
            mk = "FLEX"
        else:
            fixed = maskfn(LOC)
    pmask = {"FLEX": fm.Mask.FLEX, "NONE": fm.Mask.NONE, "fixed": fixed}[mk]
    # the consumer may declare another layout of the same geometry: values then travel by physical location
    relayout = lambda a: a  # noqa: E731
    cg, cshape = g, shape
    if case.get("cgrid") and LOC is not None:
        ccfg = case["cgrid"]
        cg = hg.build(ccfg)
        CLOC, cshape, _co = hg.ref(ccfg)
        cshape = tuple(cshape)
        index = {tuple(np.round(LOC[i], 9)): i for i in np.ndindex(*shape)}
        src_idx = [index[tuple(np.round(CLOC[j], 9))] for j in np.ndindex(*cshape)]

        def relayout(a):  # noqa: F811
            a = np.asarray(a)
            return np.array([a[i] for i in src_idx]).reshape(cshape)

        ctx.event("consumer-layout-differs")
    link = hs.Link(
        fm.Info(time=hs.T0, grid=g, units=pu, mask=pmask),
        [fm.Info(time=hs.T0, grid=cg, units=cu)],
        chain=case["chain"],
        mem_limit=None if memloc is None else int(case["limit"] * n * 8),
        mem_loc=memloc,
    )
    link.connect()
    inp = link.inputs[0]
    # unit of the publication gaps: a minute (default), a second, 50 ms, a microsecond - request times then carry
    # fractions of a second
    unit = timedelta(microseconds=int(case.get("unit_us") or 60_000_000))
    if case.get("unit_us"):
        ctx.event(f"gap-unit={case['unit_us']}us")
    vscale = 10.0 ** int(case.get("vexp", 0))  # numeric scale of the published numbers; tolerances are relative to it
    if vscale != 1.0:
        ctx.event(f"value-scale=1e{case['vexp']}")
    pubs = []  # (time, values in producer units (shape), mask array)
    t_now = hs.T0
    last_arr = None
    factor_conv = not hu.equivalent(pu, cu)
    between = False
    flatF = False
    nd = hg.n_nondegenerate(case["grid"][1]) if case["grid"][0] == "grid" else len(shape)

    def expected_at(t):
        d = [abs((p[0] - t).total_seconds()) for p in pubs]
        b = min(d)
        return [p for p, dd in zip(pubs, d) if dd == b]

    for op in ops_of(case):
        if op[0] == "push":
            form, k = op[2], len(pubs) + 1
            t_new = t_now + op[1] * unit if pubs else hs.T0
            base = ((np.arange(n, dtype=float).reshape(shape) + 1000.0 * k) if shape else np.array(1000.0 * k)) * vscale
            exp_vals, exp_mask = base, (fixed if fixed is not None else np.zeros(shape, bool))
            refuse = None
            if form == "scalar":
                payload = float(base) if not shape else base.copy()
            elif form == "list":
                payload = base.tolist()
            elif form == "shaped":
                payload = base.copy()
            elif form == "flat":
                payload = base.ravel(order=order).copy() if shape else base.copy()
                if order == "F" and nd >= 2:
                    flatF = True
            elif form == "time":
                payload = base[np.newaxis].copy()
            elif form == "masked":
                if mk == "NONE":
                    payload = base.copy()
                else:
                    m = fixed if fixed is not None else ((np.arange(n).reshape(shape) % 3 == 1) if shape else np.zeros((), bool))
                    payload = np.ma.array(base.copy(), mask=m)
                    exp_mask = np.asarray(m, bool)
            elif form == "quant":
                fu = op[3]
                payload = tools.UNITS.Quantity(base.copy(), fu)
                exp_vals = hu.convert(base, fu, pu) if not hu.equivalent(fu, pu) else base
            elif form == "quant_bad":
                payload = tools.UNITS.Quantity(base.copy(), op[3])
                refuse = "units"
            elif form == "wrongsize":
                if not shape or g.__class__.__name__ == "NoGrid":
                    payload, refuse = np.zeros(tuple(shape) + (2, 2)), "size"
                else:
                    payload, refuse = np.zeros(n + 1), "size"
            elif form in ("same", "view"):
                if last_arr is None or not shape:
                    continue
                payload = last_arr if form == "same" else last_arr[...]
                if link.out.data and isinstance(link.out.data[-1][1], str):
                    # the previous publication lives in a file: nothing retained can alias the array, the
                    # publication may be accepted and then carries the array's (= the previous) values
                    exp_vals, exp_mask = pubs[-1][1], pubs[-1][2]
                    ctx.event("same-array-after-spilled-entry")
                else:
                    refuse = "shares"
            else:
                raise ValueError(form)
            before_len, before_time = len(link.out.data), link.out.time
            try:
                link.out.push_data(payload, t_new)
            except Exception as e:  # pylint: disable=broad-except
                if not isinstance(e, fm.FinamDataError) and refuse != "size":
                    raise
                if not isinstance(e, fm.FinamDataError):
                    ctx.event("refused-size-with-raw-error")
                if refuse is None:
                    ctx.violation(f"push-refused-{form}", f"documented payload form {form} refused: {e}")
                    return
                if len(link.out.data) != before_len or link.out.time != before_time:
                    ctx.violation("refusal-changed-history", f"refused publication ({refuse}) changed the output's history")
                    return
                ctx.event(f"refused-{refuse}")
                continue
            if refuse is not None:
                ctx.violation(f"accepts-{refuse}", f"publication that must be refused ({refuse}, form {form}) was accepted")
                return
            if link.out.time != t_new:
                ctx.violation("output-time", f"Output.time {link.out.time} after publishing for {t_new}")
                return
            pubs.append((t_new, np.asarray(exp_vals, float), np.asarray(exp_mask, bool)))
            t_now = t_new
            last_arr = payload if isinstance(payload, np.ndarray) and not np.ma.isMaskedArray(payload) and form != "time" else None
            ctx.event(f"form={form}")
            continue
        # ---- pulls
        if not pubs:
            try:
                inp.pull_data(hs.T0)
            except fm.FinamNoDataError:
                continue
            ctx.violation("pull-before-data", "pull before any publication did not raise FinamNoDataError")
            return
        oldest, newest = link.out.data[0][0], pubs[-1][0]
        mode = op[1]
        if mode == "after":
            t = newest + op[2] * unit
        elif mode == "before":
            t = oldest - op[2] * unit
        else:
            ret = [p for p in pubs if p[0] >= oldest]
            i = op[2] % len(ret)
            if mode == "exact" or len(ret) == 1 or i == len(ret) - 1:
                t = ret[i][0]
            else:
                a, b = ret[i][0], ret[i + 1][0]
                t = a + (b - a) / 2 if mode == "mid" else a + (b - a) * op[3] / op[4]
        if t < oldest or t > newest:
            try:
                inp.pull_data(t)
            except fm.FinamTimeError:
                ctx.event("out-of-range-refused")
                continue
            ctx.violation(f"serves-out-of-range-{mode}", f"request at {hs.mins(t)} outside [{hs.mins(oldest)},{hs.mins(newest)}] was served")
            return
        try:
            r = inp.pull_data(t)
        except (fm.FinamTimeError, fm.FinamNoDataError) as e:
            ctx.violation("in-range-refused", f"request at {hs.mins(t)} within [{hs.mins(oldest)},{hs.mins(newest)}] refused: {e}")
            return
        if not hasattr(r, "units") or r.units != tools.UNITS.Unit(cu):
            ctx.violation("units-label", f"pulled data labelled {getattr(r, 'units', None)}, consumer declared {cu!r}")
            return
        m = r.magnitude
        if np.shape(m) != (1,) + tuple(cshape):
            ctx.violation("shape", f"pulled shape {np.shape(m)}, expected {(1,) + tuple(cshape)}")
            return
        cands = expected_at(t)
        ok = False
        cands = [(tp, relayout(vals), relayout(msk)) for tp, vals, msk in cands]
        for (_tp, vals, msk) in cands:
            want = hu.convert(vals, pu, cu) if factor_conv else vals
            if _close(np.ma.getdata(m[0])[~msk], np.asarray(want)[~msk], vscale) and np.array_equal(np.ma.getmaskarray(m[0]), msk):
                ok = True
        if not ok:
            tp, vals, msk = cands[0]
            want = hu.convert(vals, pu, cu) if factor_conv else vals
            if not np.array_equal(np.ma.getmaskarray(m[0]), msk):
                ctx.violation("mask", f"pulled mask differs from the mask demanded by the metadata/payload (mask spec {mk}, grid {case['grid']})")
            else:
                ctx.violation("values", f"request {hs.mins(t)} min: got {np.ma.getdata(m[0]).ravel()[:4]}, nearest publication ({hs.mins(tp)} min) gives {np.ravel(want)[:4]} [{pu}->{cu}]")
            return
        if mk == "NONE" and np.ma.isMaskedArray(m):
            ctx.violation("none-masked", "unmasked (Mask.NONE) link delivered a masked array")
            return
        if len(pubs) >= 3 and any(a[0] < t < b[0] for a, b in zip(pubs, pubs[1:])):
            between = True
    link.finalize()
    ctx.event(f"mask={mk}")
    ctx.event("grid=" + (case["grid"][0] if case["grid"][0] == "nogrid" else case["grid"][1]["cls"]))
    if factor_conv:
        ctx.event("conversion-factor")
    ctx.nontrivial(between or (factor_conv and len(pubs) >= 1) or flatF)


def ops_of(case):
    return case["ops"]


@st.composite
def case_st(draw):
    if draw(st.integers(0, 3)) == 0:
        shape = draw(st.sampled_from([[], [3], [2, 3], [1], [4, 1]]))
        grid = ["nogrid", shape]
    else:
        grid = ["grid", draw(hg.grid_cfg(min_len=2, max_len=4))]
    grp = draw(st.sampled_from(UNIT_GROUPS))
    pu, cu = draw(st.sampled_from(grp)), draw(st.sampled_from(grp))
    mask = draw(st.sampled_from(["FLEX", "FLEX", "NONE", "fixed"]))
    other = [u for u in hu.NAMES if not hu.compatible(u, pu)]
    forms = ["shaped", "shaped", "flat", "time", "list", "masked", "quant", "quant_bad", "wrongsize", "same", "view"]
    if grid[0] == "nogrid":
        forms = [f for f in forms if f != "flat"]  # a NoGrid has no order to flatten in
    if grid[0] == "nogrid" and not grid[1]:
        forms = ["scalar", "scalar", "quant", "quant_bad", "wrongsize", "list"]
    ops = []
    for _ in range(draw(st.integers(2, 25))):
        if draw(st.integers(0, 9)) < 5:
            f = draw(st.sampled_from(forms))
            op = ["push", draw(st.sampled_from([10, 20, 30, 70, 70, 1440, 2000, 4321, 10081])), f]
            if f == "quant":
                op.append(draw(st.sampled_from(grp)))
            if f == "quant_bad":
                op.append(draw(st.sampled_from(other)))
            ops.append(op)
        else:
            mode = draw(st.sampled_from(["exact", "mid", "frac", "frac", "before", "after"]))
            if mode in ("before", "after"):
                ops.append(["pull", mode, draw(st.integers(1, 50))])
            else:
                d = draw(st.sampled_from([3, 4, 5, 7]))
                ops.append(["pull", mode, draw(st.integers(0, 4)), draw(st.integers(0, d)), d])
    chain = draw(st.sampled_from([[], [], [["scale", 1.0]], [["cb"]]]))
    cgrid = None
    if grid[0] == "grid" and grid[1]["cls"] != "esri" and draw(st.integers(0, 2)) == 0:
        lens = [len(a) for a in hg.user_axes(grid[1])]
        cgrid = hg.same_geometry_layout(grid[1], draw(st.sampled_from("CF")), draw(st.booleans()), [draw(st.booleans()) and n > 1 for n in lens])
    limit = draw(st.sampled_from([None, None, None, None, 0, 0.5, 1.5, 1.5, 2.5, 3.5]))
    return {"grid": grid, "pu": pu, "cu": cu, "mask": mask, "chain": chain, "ops": ops, "cgrid": cgrid, "limit": limit,
            "vexp": draw(st.sampled_from([0, 0, 0, -9, 9])), "unit_us": draw(st.sampled_from([None, None, None, 1000000, 50000, 1]))}


@st.composite
def backlog_case(draw):
    """a producer far ahead of its consumer: 33-90 publications retained when the pulls begin, requests anywhere in
    the backlog (exact, midpoints, any fraction of an interval)"""
    grid = ["nogrid", draw(st.sampled_from([[], [3]]))] if draw(st.booleans()) else ["grid", draw(hg.grid_cfg(min_len=2, max_len=3))]
    grp = draw(st.sampled_from(UNIT_GROUPS))
    pu, cu = draw(st.sampled_from(grp)), draw(st.sampled_from(grp))
    form = "scalar" if grid == ["nogrid", []] else "shaped"
    ops = [["push", 10, form]]
    for _ in range(draw(st.integers(33, 90))):
        ops.append(["push", draw(st.sampled_from([10, 20, 70, 7])), form])
    for _ in range(draw(st.integers(3, 12))):
        mode = draw(st.sampled_from(["exact", "mid", "frac", "frac", "frac"]))
        d = draw(st.sampled_from([3, 4, 5, 7, 10]))
        ops.append(["pull", mode, draw(st.integers(0, 90)), draw(st.integers(0, d)), d])
        if draw(st.integers(0, 3)) == 0:
            for _ in range(draw(st.integers(1, 40))):
                ops.append(["push", draw(st.sampled_from([10, 20, 7])), form])
    return {"grid": grid, "pu": pu, "cu": cu, "mask": "FLEX", "chain": draw(st.sampled_from([[], [], [["scale", 1.0]]])), "ops": ops,
            "cgrid": None, "limit": draw(st.sampled_from([None, None, 0, 40.5])), "vexp": 0, "unit_us": draw(st.sampled_from([None, None, 50000, 1]))}


# ------------------------------------------------------------------ integer payloads over converting links
INT_PAIRS = [("day", "s"), ("h", "s"), ("min", "s"), ("year", "s"), ("ha", "m2"), ("km2", "m2"), ("s", "ms"), ("s", "min"), ("m2", "ha")]
INT_MAGS = {"int16": [3, 30000], "int32": [7, 2**31 - 9], "int64": [11, 2**31 + 5, 2 * 10**13, 11 * 10**13, 10**15, 2**62 + 12345], "uint64": [5, 2 * 10**13, 2**63 + 99]}


def check_ints(case, ctx):
    """integer arrays (counts, codes, raw sensor values) published on a link whose ends declare different units, or
    published as a quantity in foreign units: what arrives is the published number converted to the consumer's units -
    also when value * factor leaves the range of the integer type. Reference: Python int -> float * catalogue factor."""
    import finam as fm
    from finam.data import tools

    a, b, dt, mag, route = case["a"], case["b"], case["dtype"], case["mag"], case["route"]
    vals = np.array([mag, mag - 1, mag // 3 + 1, 1, 0], dtype=dt)
    if np.dtype(dt).kind == "i":
        vals[2] = -vals[2]
    ref = np.array([float(int(v)) for v in vals])
    exp = hu.convert(ref, a, b)
    fac = hu.CATALOGUE[a][1] / hu.CATALOGUE[b][1]
    ctx.nontrivial(abs(mag * fac) >= 2.0 ** (8 * np.dtype(dt).itemsize - 1))
    ctx.event(f"{dt}|{'overflowing-product' if abs(mag * fac) >= 2.0 ** (8 * np.dtype(dt).itemsize - 1) else 'in-range'}")
    g = fm.NoGrid(1)
    if route == "link":
        link = hs.Link(fm.Info(time=hs.T0, grid=g, units=a), [fm.Info(time=hs.T0, grid=g, units=b)])
        payload = vals.copy()
    else:
        link = hs.Link(fm.Info(time=hs.T0, grid=g, units=b), [fm.Info(time=hs.T0, grid=g, units=b)])
        payload = tools.UNITS.Quantity(vals.copy(), a)
    link.connect()
    try:
        link.out.push_data(payload, hs.T0)
        r = link.inputs[0].pull_data(hs.T0)
    except (fm.FinamDataError, fm.FinamMetaDataError, OverflowError, TypeError, ValueError) as e:
        ctx.violation(f"int-payload-fails|{route}", f"{dt} payload {a!r} -> {b!r} ({route}): {type(e).__name__}: {str(e)[:160]}")
        return
    got = np.asarray(np.ma.getdata(r.magnitude)[0], dtype=float)
    if got.shape != exp.shape or not np.allclose(got, exp, rtol=1e-9, atol=0.0):
        ctx.violation(f"int-values|{route}", f"{dt} values {vals.tolist()} {a!r} -> {b!r} ({route}) arrive as {got.tolist()}, physical conversion is {exp.tolist()}")
    if r.units != tools.UNITS.Unit(b):
        ctx.violation("int-units-label", f"pulled data labelled {r.units}, consumer declared {b!r}")


def enum_ints(tier):
    for a, b in INT_PAIRS:
        for dt, mags in INT_MAGS.items():
            for mag in mags:
                for route in ("link", "quant"):
                    yield {"a": a, "b": b, "dtype": dt, "mag": mag, "route": route}


def parts():
    return [
        Part("int_payload_enum", check_ints, enumerate=enum_ints, exhaustive=True),
        Part("histories", hs.with_epoch(check), strategy=hs.plus_epoch(case_st()), budget={"quick": 2000, "thorough": 50000}),
        Part("backlog", hs.with_epoch(check), strategy=hs.plus_epoch(backlog_case()), budget={"quick": 200, "thorough": 8000}, shrink_budget=150),
    ]
