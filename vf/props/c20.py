"""C20 - static slots are time independent; pull-based components are served on demand."""
import os
from datetime import timedelta

import numpy as np
from hypothesis import strategies as st

from .. import h_sched as S
from .. import h_sched_gen as G
from .. import h_slot as hs
from .. import h_units as hu
from ..runner import Part

PROP = "C20"
RULE = (
    "static: operation sequences (publish, repeated publish, pull with arbitrary times incl. None) on a real "
    "static Output >> pass-through adapters >> static or dynamic Input(s); oracle: first publication accepted, "
    "later ones FinamStaticDataError, every pull returns the first publication bitwise, a static input asks "
    "its source once. pullbased: generated compositions in which time-stepped consumers read through one or two "
    "pull-based components (also a diamond of three) from time-stepped producers with arbitrary steps, delays / "
    "pass-through / interpolation adapters on either side; oracle: provider-callback log == for every consumer "
    "pull exactly one provider call with the reference model's transformed time, the provider's own pull "
    "reaches the producer with that time, C01/C02 monitors clean. merger: WeightedSum with 1-3 value/weight "
    "pairs from producers in equal or merely compatible units, 1-2 consumers; oracle: sum value*weight at the "
    "nearest publication, converted through the hand-written unit catalogue. non-trivial: static = >=2 pulls "
    "with different times after a refused re-publication; pullbased = producer/consumer steps differ and a delay "
    "sits next to the pull-based component; merger = two consumers or mixed units. distinct = canonical JSON."
)
ASSUMPTIONS = [
    "pull-based harness component follows the documented pattern (None until its initial pull succeeded, pulls its input for exactly the requested time, returns a copy)",
    "known finding F12 (fan-out of a pull-based output to consumers asking for different times) is excluded by construction from the generators and reproduced from replays/C20",
    "merger consumers run in lock step (same start and step) - different paces are F12",
]


# ------------------------------------------------------------------ (a) static slots
def check_static(case, ctx):
    import shutil
    import tempfile

    import finam as fm

    link = _static_link(case)
    spill = None
    if case.get("limit") is not None:
        # the single publication of a static output may live on disk as well
        spill = tempfile.mkdtemp(prefix="vf-c20-")
        for s in [link.out] + link.adapters:
            s.memory_limit = case["limit"]
            s.memory_location = spill
        ctx.event("static-with-memory-limit")
    try:
        _check_static(case, ctx, link)
        link.out.finalize()
        if spill is not None and os.listdir(spill):
            ctx.violation("static-spill-file-left", f"files left after finalize: {os.listdir(spill)[:2]}")
    finally:
        if spill is not None:
            shutil.rmtree(spill, ignore_errors=True)


def _check_static(case, ctx, link):
    import finam as fm

    asked = []
    orig = link.out.get_data

    def logged(time, target):
        asked.append(time)
        return orig(time, target)

    link.out.get_data = logged
    first = None
    refused = False
    times_after_refusal = set()
    for op in case["ops"]:
        if op[0] == "push":
            payload = np.arange(3, dtype=float) + op[1]
            try:
                link.out.push_data(payload, None if op[2] else hs.tm(op[3]))
            except fm.FinamStaticDataError:
                if first is None:
                    ctx.violation("first-publication-refused", "static output refused its first publication")
                    return
                refused = True
                continue
            if first is not None:
                ctx.violation("second-publication-accepted", "static output accepted a second publication")
                return
            first = payload.copy()
        else:
            k = op[1] % len(link.inputs)
            t = None if op[2] is None else hs.tm(op[2])
            try:
                r = link.inputs[k].pull_data(t)
            except fm.FinamNoDataError:
                if first is not None:
                    ctx.violation("static-pull-refused", f"pull at {op[2]} refused after the publication")
                    return
                continue
            if first is None:
                ctx.violation("pull-before-publication-served", "static output served a pull before any publication")
                return
            m = np.asarray(r.magnitude)
            scale = 1.0
            for a in case["chain"]:
                if a[0] == "scale":
                    scale *= a[1]
            want = first * scale
            if case.get("gridded") and case["flip_in"][k]:
                want = want[::-1]
            if case.get("units_in", ["m"] * 3)[k] == "mm":
                want = want * 1000.0
            if m.shape != (1, 3) or not np.allclose(m[0], want, rtol=1e-12, atol=0):
                ctx.violation("static-value-changed", f"pull at {op[2]} by input {k} returned {m.ravel()}, the first publication as seen by this input is {want}")
                return
            if refused:
                times_after_refusal.add(op[2])
    # a static input fetches once
    n_static_in = sum(1 for s in case["static_in"][: case["n_in"]] if s)
    pulls_by_input = {}
    for op in case["ops"]:
        if op[0] == "pull":
            pulls_by_input.setdefault(op[1] % len(link.inputs), 0)
            pulls_by_input[op[1] % len(link.inputs)] += 1
    if first is not None:
        exp_max = 0
        for k, inp in enumerate(link.inputs):
            n = pulls_by_input.get(k, 0)
            exp_max += min(n, 1) if case["static_in"][k] else n
        # pulls before the publication also reach the source (and fail there): count only an upper bound per static input
        pre = 0
        seen_push = False
        for op in case["ops"]:
            if op[0] == "push":
                seen_push = True
            elif not seen_push:
                pre += 1
        if len(asked) > exp_max + pre:
            ctx.violation("static-input-asks-again", f"source asked {len(asked)} times; static inputs must fetch once (expected at most {exp_max + pre})")
            return
    ctx.event(f"inputs={case['n_in']}")
    ctx.event("chain=" + ("+".join(a[0] for a in case["chain"]) or "direct"))
    ctx.nontrivial(len(times_after_refusal) >= 2)


def _static_link(case):
    import finam as fm

    gridded = bool(case.get("gridded"))
    g = fm.UniformGrid((4,)) if gridded else fm.NoGrid(1)  # 3 cells <-> payloads of 3 values
    out = fm.Output(name="o", info=fm.Info(time=None, grid=g, units="m"), static=True)
    x = out
    adas = []
    for a in case["chain"]:
        ada = hs.make_adapter(a)
        adas.append(ada)
        x = x >> ada
    inputs = []
    for k in range(case["n_in"]):
        # an input may declare the same grid with the axis running the other way and / or other units: the value it
        # serves (cached, if static) is the publication flipped / converted - the same at every pull
        gk = fm.UniformGrid((4,), axes_increase=[False]) if gridded and case["flip_in"][k] else g
        inp = fm.Input(name=f"i{k}", info=fm.Info(time=None, grid=gk, units=case.get("units_in", ["m"] * 3)[k]), static=bool(case["static_in"][k]))
        x >> inp
        inputs.append(inp)
    for inp in inputs:
        inp.ping()
    for inp in inputs:
        inp.exchange_info()

    class L:
        pass

    link = L()
    link.out, link.inputs, link.adapters = out, inputs, adas
    return link


@st.composite
def static_case(draw):
    chain = draw(st.sampled_from([[], [], [["scale", 2.0]], [["cb"]], [["scale", 0.5], ["cb"]]]))
    n_in = draw(st.integers(1, 3))
    ops = []
    for _ in range(draw(st.integers(2, 16))):
        if draw(st.integers(0, 9)) < 3:
            ops.append(["push", draw(st.integers(0, 50)), draw(st.booleans()), draw(st.integers(0, 500))])
        else:
            ops.append(["pull", draw(st.integers(0, 2)), draw(st.one_of(st.none(), st.integers(-500, 5000)))])
    return {"chain": chain, "n_in": n_in, "static_in": [draw(st.booleans()) for _ in range(3)], "ops": ops,
            "limit": draw(st.sampled_from([None, None, 0, 8, 1000])),
            "gridded": draw(st.booleans()), "flip_in": [draw(st.booleans()) for _ in range(3)],
            "units_in": [draw(st.sampled_from(["m", "m", "mm"])) for _ in range(3)]}


# ------------------------------------------------------------------ (b) pull-based components
def check_pullbased(spec, ctx):
    outcome, msg, trace, _b = S.run(spec)
    kinds = {c["name"]: c["kind"] for c in spec["comps"]}
    steps = {c["name"]: c["steps"] for c in spec["comps"] if c["kind"] == "model"}
    ctx.event(f"outcome={outcome}")
    for e in spec.get("excluded", []):
        ctx.event("excluded:" + e)
    info = f" | links {spec['links']} order {spec['order']}"
    if outcome != "ok":
        ctx.violation(f"run-fails:{outcome}", f"{(msg or '')[:200]}" + info)
        return
    viol, _stats = S.monitor(spec, trace, want=("C01", "C02"))
    for p, tag, m, _ev in viol:
        ctx.violation(f"{p}-{tag}", m + info)
        return
    # expected provider calls from the reference model
    m = S.RefModel(spec)
    exp = []

    def pull(comp, t):
        for li in m.inlinks.get(comp, []):
            rq = m.required(li, t, record=True)
            s = spec["links"][li][0]
            if kinds[s] != "model":
                exp.append((s, rq))
                if rq is not None:
                    pull(s, rq)

    got = []
    seen_update = False
    cur = None
    for ev in trace:
        if ev[0] == "update":
            if not seen_update:
                for c in spec["comps"]:
                    if c["kind"] == "model" and c["ins"]:
                        pull(c["name"], m.comp_start)
                del exp[:]
                seen_update = True
            if cur is not None and sorted(got) != sorted(exp):
                ctx.violation("provider-calls", f"update of {cur}: provider calls {sorted(got)} but consumer pulls imply {sorted(exp)}" + info)
                return
            del got[:]
            del exp[:]
            cur = ev[1]
            pull(ev[1], ev[3])
        elif ev[0] == "thru" and seen_update:
            got.append((ev[1], ev[2]))
    if cur is not None and sorted(got) != sorted(exp):
        ctx.violation("provider-calls", f"update of {cur}: provider calls {sorted(got)} but consumer pulls imply {sorted(exp)}" + info)
        return
    # provider's own pull reaches the producer with the same (transformed) time: 'get' events between thru and thru-pulled
    nt = False
    for l in spec["links"]:
        s, ch, d = l[0], l[2], l[3]
        if (kinds[s] != "model" or kinds[d] != "model") and any(a[0] in hs.DELAYS for a in ch):
            nt = True
    differ = len({tuple(v) for v in steps.values()}) > 1
    n_thru = sum(1 for k in kinds.values() if k == "thru")
    ctx.event(f"pull-based-components={n_thru}")
    ctx.nontrivial(nt and differ and n_thru >= 1)


@st.composite
def pullbased_spec(draw):
    for _ in range(20):
        spec = draw(G.dag_spec(kinds=[k for k in G.ALL_KINDS if k != "dpush"], max_models=4))
        if any(c["kind"] == "thru" for c in spec["comps"]):
            return spec
    return spec


# ------------------------------------------------------------------ (b2) fan-out of a pull-based output
def check_fanout(spec, ctx):
    """one producer -> pull-based T -> two consumers. Equal request times must work; different paces are
    known finding F12 (the provider's single input cannot serve requests that go back in time)."""
    outcome, msg, trace, _b = S.run(spec)
    s1 = next(c for c in spec["comps"] if c["name"] == "C0")
    s2 = next(c for c in spec["comps"] if c["name"] == "C1")
    same = s1["steps"] == s2["steps"] and s1["start"] == s2["start"]
    ctx.event("equal-request-times" if same else "different-request-times")
    ctx.nontrivial(True)
    info = f" | steps {s1['steps']}/{s2['steps']} order {spec['order']}"
    if outcome != "ok":
        tag = "pull-based-fanout-equal-times" if same else "pull-based-fanout-different-times"
        ctx.violation(tag, f"{outcome}: {(msg or '')[:160]}" + info)
        return
    viol, _ = S.monitor(spec, trace, want=("C01", "C02"))
    for p, tag, m, _ev in viol:
        ctx.violation(f"{p}-{tag}", m + info)
        return


def enum_fanout(tier):
    import itertools

    for a, b in itertools.product([[1], [2], [3], [1, 2]], repeat=2):
        for order in itertools.permutations(["P", "T0", "C0", "C1"]):
            yield {
                "comps": [
                    {"kind": "model", "name": "P", "start": 0, "steps": [1], "ins": [], "outs": ["o"]},
                    {"kind": "thru", "name": "T0"},
                    {"kind": "model", "name": "C0", "start": 0, "steps": a, "ins": ["i0"], "outs": []},
                    {"kind": "model", "name": "C1", "start": 0, "steps": b, "ins": ["i0"], "outs": []},
                ],
                "links": [["P", "o", [], "T0", "In"], ["T0", "Out", [], "C0", "i0"], ["T0", "Out", [], "C1", "i0"]],
                "order": list(order),
                "end": 9,
            }


# ------------------------------------------------------------------ (c) weighted-sum merger
def check_merger(case, ctx):
    spec = case
    outcome, msg, trace, _b = S.run(spec)
    info = f" | comps {[(c['name'], c.get('units'), c.get('steps')) for c in spec['comps']]} links {spec['links']}"
    if outcome != "ok":
        ctx.violation(f"merger-run-fails:{outcome}", f"{(msg or '')[:220]}" + info)
        return
    # publications of every producer (complete history): connect push at own start (+ composition start), then updates
    pubs = {}
    vals = {}
    for i, c in enumerate(spec["comps"]):
        if c["kind"] == "model":
            vals[c["name"]] = (lambda t, oid=i: float(t) + 1000.0 * (oid * 4))
            pubs[c["name"]] = [c["start"]]
    units = {c["name"]: c.get("units", "") for c in spec["comps"] if c["kind"] == "model"}
    wname = next(c["name"] for c in spec["comps"] if c["kind"] == "wsum")
    winputs = next(c["inputs"] for c in spec["comps"] if c["kind"] == "wsum")
    src = {l[4]: l[0] for l in spec["links"] if l[3] == wname}
    out_unit = units[src[winputs[0]]]
    wscale = spec.get("wscale", 1.0)  # all weights scaled through a Scale adapter (tiny but non-zero weights)
    if wscale != 1.0:
        ctx.event("tiny-weights")

    def nearest(p, t):
        d = [abs(x - t) for x in pubs[p]]
        return [x for x, dd in zip(pubs[p], d) if dd == min(d)]

    def expected(t):
        # all combinations at midpoints
        res = [0.0]
        for n in winputs:
            pv, pw = src[n], src[n + "_weight"]
            nxt = []
            for tv in nearest(pv, t):
                for tw in nearest(pw, t):
                    v = hu.convert(vals[pv](tv), units[pv], out_unit) if not hu.equivalent(units[pv], out_unit) else vals[pv](tv)
                    nxt += [r + v * (vals[pw](tw) * wscale) for r in res]
            res = nxt
        return res

    checked = 0
    for ev in trace:
        if ev[0] == "updated":
            pubs[ev[1]].append(ev[2])
        elif ev[0] in ("pull", "cpull"):
            cons, t = ev[1], ev[3]
            if ev[0] == "pull" and ev[4] != "ok":
                ctx.violation("merger-pull-fails", f"{cons} pull at {t}: {ev[5]}" + info)
                return
            got, gu = (ev[5], ev[6]) if ev[0] == "pull" else (ev[4], ev[5])
            # consumer of the merger?
            if not any(l[0] == wname and l[3] == cons for l in spec["links"]):
                continue
            exp = expected(t)
            # the merger may label its result with the units of any of its value inputs: compare physically
            if gu not in hu.CATALOGUE or not hu.compatible(gu, out_unit):
                ctx.violation("merger-units", f"{cons} at {t}: WeightedSum delivered units {gu!r}, inputs have {sorted(set(units[src[n]] for n in winputs))}" + info)
                return
            got_in = got if hu.equivalent(gu, out_unit) else hu.convert(got, gu, out_unit)
            if not any(abs(got_in - e) <= 1e-9 * abs(e) + 1e-300 for e in exp):  # all terms are positive: no cancellation
                ctx.violation("merger-value", f"{cons} at {t}: WeightedSum delivered {got} {gu}, expected {exp[:3]} {out_unit}" + info)
                return
            checked += 1
    ncons = sum(1 for l in spec["links"] if l[0] == wname)
    mixed = len({units[src[n]] for n in winputs}) > 1
    ctx.event(f"consumers={ncons}")
    ctx.event(f"pairs={len(winputs)}")
    if mixed:
        ctx.event("mixed-units")
    ctx.nontrivial((ncons >= 2 or mixed) and checked >= 3)


@st.composite
def merger_spec(draw):
    npairs = draw(st.integers(1, 3))
    grp = draw(st.sampled_from([["m", "km", "mm", "cm"], ["", "1", "%"], ["m/s", "mm/d", "m s-1", "mm d-1"], ["m"], ["K", "kelvin"]]))
    comps, links = [], []
    names = []
    nprod = draw(st.integers(1, 2 * npairs))
    pstep = [draw(st.lists(st.integers(1, 5), min_size=1, max_size=2)) for _ in range(nprod)]
    for k in range(nprod):
        comps.append({"kind": "model", "name": f"P{k}", "start": 0, "steps": pstep[k], "ins": [], "outs": ["o"], "units": ""})
    inputs = [chr(ord("a") + i) for i in range(npairs)]
    if draw(st.integers(0, 2)) == 0:
        # any list of strings is allowed as base names - also ones that look like the weight slots' suffix
        inputs = [n + draw(st.sampled_from(["", "_weight", "_w", "weight"])) for n in inputs]
    comps.append({"kind": "wsum", "name": "W", "inputs": inputs})
    # value producers need units of one dimension, weight producers are dimensionless -> separate producers
    used_v, used_w = [], []
    for n in inputs:
        pv = draw(st.integers(0, nprod - 1))
        used_v.append(pv)
    for n in inputs:
        cands = [k for k in range(nprod) if k not in used_v]
        if not cands:
            comps.insert(0, {"kind": "model", "name": f"P{nprod}", "start": 0, "steps": [draw(st.integers(1, 5))], "ins": [], "outs": ["o"], "units": ""})
            cands = [nprod]
            nprod += 1
        used_w.append(draw(st.sampled_from(cands)))
    for c in comps:
        if c["kind"] == "model" and int(c["name"][1:]) in used_v:
            c["units"] = draw(st.sampled_from(grp))
    wscale = draw(st.sampled_from([1.0, 1.0, 1.0, 1.0e-12, 1.0e-11, 1.0e-6]))
    for n, pv, pw in zip(inputs, used_v, used_w):
        links.append([f"P{pv}", "o", draw(st.sampled_from([[], [], [["scale", 1.0]]])), "W", n])
        links.append([f"P{pw}", "o", [] if wscale == 1.0 else [["scale", wscale]], "W", n + "_weight"])
    ncons = draw(st.integers(1, 2))
    cstep = draw(st.lists(st.integers(1, 5), min_size=1, max_size=2))
    for k in range(ncons):
        comps.append({"kind": "model", "name": f"C{k}", "start": 0, "steps": cstep, "ins": ["i0"], "outs": []})
        links.append(["W", "WeightedSum", [], f"C{k}", "i0"])
    order = draw(st.permutations([c["name"] for c in comps]))
    links = draw(st.permutations(links))
    return {"comps": comps, "links": [list(l) for l in links], "order": list(order), "end": draw(st.integers(5, 25)), "excluded": [], "wscale": wscale}


# ------------------------------------------------------------------ (d) finam's own consumer of pull-based sources
_TT = None


def _tt_classes():
    global _TT  # pylint: disable=global-statement
    if _TT:
        return _TT
    import finam as fm

    class Daily(fm.TimeComponent):
        def __init__(self, start, step_days):
            super().__init__()
            self._name, self._time, self.t0, self.step = "P", start, start, timedelta(days=step_days)

        def _next_time(self):
            return self.time + self.step

        def _initialize(self):
            self.outputs.add(name="o", time=self.time, grid=fm.NoGrid(), units="")
            self.create_connector()

        def _connect(self, start_time):
            self.try_connect(start_time, push_data={"o": 0.0})

        def _validate(self):
            pass

        def _update(self):
            self._time = self.next_time
            self.outputs["o"].push_data(float((self.time - self.t0).days), self.time)

        def _finalize(self):
            pass

    class Relay(fm.Component):
        """pull-based component after the documented pattern; logs (requested time, what the producer has published)"""

        def __init__(self, producer, log):
            super().__init__()
            self._name, self.producer, self.log, self.ready = "R", producer, log, False

        def _initialize(self):
            self.inputs.add(name="In", time=None, grid=fm.NoGrid(), units=None)
            self.outputs.add(fm.CallbackOutput(callback=self._get, name="Out"))
            self.create_connector(pull_data=["In"], out_info_rules={"Out": [fm.tools.FromInput("In")]})

        def _connect(self, start_time):
            self.try_connect(start_time)
            if self.connector.all_data_pulled:
                self.ready = True

        def _get(self, _caller, time):
            if not self.ready:
                return None
            self.log.append(["call", time, self.producer.outputs["o"].time])
            v = self.inputs["In"].pull_data(time)
            self.log[-1].append(float(np.asarray(v.magnitude).ravel()[0]))
            return v.copy()

        def _validate(self):
            pass

        def _update(self):
            pass

        def _finalize(self):
            pass

    _TT = (Daily, Relay)
    return _TT


def check_time_trigger(case, ctx):
    """daily producer -> pull-based relay -> fm.components.TimeTrigger(step = timedelta or calendar step) -> sink.
    The provider must be invoked for a time the producer has reached (C01 extends through the pull-based component),
    its own pull must deliver the producer's publication for exactly that time, and the run must complete."""
    from datetime import datetime

    import finam as fm
    from dateutil.relativedelta import relativedelta

    Daily, Relay = _tt_classes()
    start = datetime(*case["start"])
    step = relativedelta(**case["step"]) if case["calendar"] else timedelta(**case["step"])
    log = []
    prod = Daily(start, case["pstep"])
    relay = Relay(prod, log)
    trig = fm.components.TimeTrigger(in_info=fm.Info(time=None, grid=None, units=None), start=start, step=step)
    sink = fm.components.DebugConsumer({"In": fm.Info(time=None, grid=fm.NoGrid(), units=None)}, start=start, step=timedelta(days=case["sstep"]))
    comps = [prod, relay, trig, sink]
    comp = fm.Composition([comps[i] for i in case["order"]], print_log=False)
    prod.outputs["o"] >> relay.inputs["In"]
    relay.outputs["Out"] >> trig.inputs["In"]
    trig.outputs["Out"] >> sink.inputs["In"]
    info = f" | start {start.date()} step {case['step']} producer step {case['pstep']} d order {case['order']}"
    ctx.event("calendar-step" if case["calendar"] else "timedelta-step")
    ctx.nontrivial(case["calendar"] or case["pstep"] > 1)
    try:
        comp.run(end_time=start + timedelta(days=case["days"]))
    except (fm.FinamTimeError, fm.FinamNoDataError) as e:
        last = log[-1] if log else None
        ctx.violation("time-trigger-run-fails", f"{type(e).__name__}: {str(e)[:140]}; last provider call {last}" + info)
        return
    calls = [c for c in log if c[1] is not None]
    for c in calls:
        _tag, t, have = c[0], c[1], c[2]
        if have is None or t > have:
            ctx.violation("provider-called-before-upstream-ready", f"provider invoked for {t} while the producer has published up to {have}" + info)
            return
        if len(c) > 3 and case["pstep"] == 1 and c[3] != float((t - start).days):
            ctx.violation("provider-pull-other-time", f"provider's pull for {t} delivered the producer's day {c[3]}" + info)
            return
    if len(calls) < 3:
        ctx.violation("time-trigger-not-served", f"only {len(calls)} provider calls in {case['days']} days" + info)


@st.composite
def time_trigger_case(draw):
    y = draw(st.sampled_from([2000, 2001, 2003]))
    m = draw(st.integers(1, 12))
    dmax = [31, 29 if y == 2000 else 28, 31, 30, 31, 30, 31, 31, 30, 31, 30, 31][m - 1]
    d = draw(st.one_of(st.integers(1, dmax), st.integers(max(1, dmax - 3), dmax)))
    calendar = draw(st.booleans())
    if calendar:
        step = draw(st.sampled_from([{"months": 1}, {"months": 1}, {"months": 2}, {"months": 1, "days": 1}, {"weeks": 3}]))
        days = 250
    else:
        step = {"days": draw(st.integers(1, 9))}
        days = draw(st.integers(20, 60))
    return {"start": [y, m, d], "calendar": calendar, "step": step, "pstep": draw(st.sampled_from([1, 1, 2, 3])), "sstep": draw(st.integers(1, 40)),
            "days": days, "order": list(draw(st.permutations([0, 1, 2, 3])))}


def parts():
    return [
        Part("static", check_static, strategy=static_case(), budget={"quick": 1500, "thorough": 30000}),
        Part("pullbased", check_pullbased, strategy=pullbased_spec(), budget={"quick": 700, "thorough": 40000}, fuzz={"thorough": 5000}),
        Part("fanout_enum", check_fanout, enumerate=enum_fanout, exhaustive=True),
        Part("time_trigger", check_time_trigger, strategy=time_trigger_case(), budget={"quick": 200, "thorough": 6000}, shrink_budget=100),
        Part("merger", check_merger, strategy=merger_spec(), budget={"quick": 500, "thorough": 20000}),
    ]
