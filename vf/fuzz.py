"""Coverage-guided tier (atheris / libFuzzer) for selected parts (DESIGN.md 2.6).

    python -m vf.fuzz <ID> <part> --runs N --seed S --out DIR

The fuzzer's bytes are turned into a structured case by the part's own Hypothesis strategy
(`test.hypothesis.fuzz_one_input`), so coverage feedback steers the *structure* of compositions /
topologies; the same oracle (`part.check`) runs inside the target. A violation is written as a
replay JSON into DIR and ends the campaign; otherwise `stats.json` holds the number of executions.
"""
import argparse
import importlib
import json
import logging
import os
import sys
import warnings

warnings.filterwarnings("ignore")
logging.disable(logging.CRITICAL)


def main():
    ap = argparse.ArgumentParser()
    ap.add_argument("prop")
    ap.add_argument("part")
    ap.add_argument("--runs", type=int, default=2000)
    ap.add_argument("--seed", type=int, default=1)
    ap.add_argument("--out", required=True)
    args = ap.parse_args()
    os.makedirs(args.out, exist_ok=True)
    corpus = os.path.join(args.out, "corpus")
    os.makedirs(corpus, exist_ok=True)

    import atheris

    with atheris.instrument_imports(include=["finam"]):
        import finam  # noqa: F401  pylint: disable=unused-import
        import finam.adapters  # noqa: F401
        import finam.components  # noqa: F401
        import finam.schedule  # noqa: F401

    from hypothesis import HealthCheck, given, settings

    from . import runner

    mod = importlib.import_module(f"vf.props.{args.prop.lower()}")
    part = next(p for p in mod.parts() if p.name == args.part)
    known = {e["signature"] for e in runner.load_known(mod.PROP) if e.get("status") == "known"}
    ctx = runner.Ctx(mod.PROP, part.name)
    stats = {"executions": 0, "violations": 0}

    @settings(database=None, deadline=None, suppress_health_check=list(HealthCheck))
    @given(part.strategy)
    def test(case):
        stats["executions"] += 1
        viols = runner.evaluate(part, case, ctx)
        live = [(s, m) for s, m in viols if s not in known]
        if live:
            sig, msg = live[0]
            stats["violations"] += 1
            with open(os.path.join(args.out, "violation.json"), "w") as f:
                json.dump({"property": mod.PROP, "part": part.name, "signature": sig, "message": msg,
                           "case": json.loads(runner.canon(case))}, f, indent=1, sort_keys=True)
            _dump(stats, ctx, args)
            os._exit(3)  # pylint: disable=protected-access

    def target(data):
        test.hypothesis.fuzz_one_input(data)
        if stats["executions"] % 20 == 0:
            _dump(stats, ctx, args)

    # starting corpus: a few deterministic pseudo-random blobs long enough for whole cases (plus the empty input)
    import hashlib

    for k in range(6):
        blob = b"".join(hashlib.blake2b(f"{args.seed}-{k}-{j}".encode(), digest_size=64).digest() for j in range(4 * (k + 1)))
        with open(os.path.join(corpus, f"seed{k}"), "wb") as f:
            f.write(blob)
    argv = [sys.argv[0], f"-runs={args.runs}", f"-seed={args.seed}", "-max_len=4096", "-len_control=0",
            "-print_final_stats=1", corpus]
    atheris.Setup(argv, target)
    try:
        atheris.Fuzz()
    finally:
        _dump(stats, ctx, args)


def _dump(stats, ctx, args):
    s = ctx.summary()
    with open(os.path.join(args.out, "stats.json"), "w") as f:
        json.dump({"executions": stats["executions"], "violations": stats["violations"],
                   "evaluations": s["evaluations"], "distinct_nontrivial": len(s["nontriv"]),
                   "classes": s["classes"], "samples": s["samples"][:2],
                   "corpus_files": len(os.listdir(os.path.join(args.out, "corpus")))}, f)


if __name__ == "__main__":
    main()
