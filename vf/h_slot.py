"""H-SLOT: slot-level harness (Output >> adapters >> Input without a Composition)."""
import logging
from datetime import datetime, timedelta

import numpy as np

logging.disable(logging.CRITICAL)

T0 = datetime(2000, 1, 1)


TICK = [timedelta(minutes=1)]  # the time lattice unit (H-SCHED runs may use other ticks, e.g. 1/3 s or 1 day)
EPOCH = [None]  # origin of the lattice if not T0 (runs may start at other dates: before 1970, across 2038, far future)
# (the last two: the limits of numpy's datetime64[ns], 1677-09-21 00:12:43 and 2262-04-11 23:47:16, lie inside the run)
EPOCHS = [None, None, None, None, None, None, [1969, 12, 31, 23, 58], [1900, 2, 28, 23, 50], [2400, 2, 28, 23, 0], [2038, 1, 19, 3, 10],
          [1677, 9, 20, 23, 50], [2262, 4, 11, 23, 30]]


def origin():
    return EPOCH[0] if EPOCH[0] is not None else T0


def with_epoch(fn):
    """slot-level checks: case["t0"] (optional) replaces the base date T0 for the duration of the check"""
    import functools

    @functools.wraps(fn)
    def wrapped(case, ctx):
        t0 = case.get("t0") if isinstance(case, dict) else None
        if not t0:
            return fn(case, ctx)
        g = globals()
        old = g["T0"]
        g["T0"] = datetime(*t0)
        ctx.event("base-date=" + g["T0"].isoformat())
        try:
            return fn(case, ctx)
        finally:
            g["T0"] = old

    return wrapped


def plus_epoch(strategy):
    """adds "t0" (drawn from EPOCHS) to the dict cases of a strategy"""
    from hypothesis import strategies as st

    return st.builds(lambda c, t0: dict(c, t0=t0), strategy, st.sampled_from(EPOCHS))


def tick():
    return TICK[0]


def tm(minutes):
    """time on the integer lattice (default tick: one minute)"""
    return origin() + int(minutes) * TICK[0]


def mins(t):
    return None if t is None else int(round((t - origin()) / TICK[0]))


def make_adapter(spec):
    """adapter spec (JSON list) -> finam adapter"""
    import finam as fm

    k = spec[0]
    A = fm.adapters
    if k == "scale":
        return A.Scale(spec[1] if len(spec) > 1 else 1.0)
    if k == "cb":
        return A.Callback(lambda d, t: d)
    if k == "next":
        return A.NextTime()
    if k == "prev":
        return A.PreviousTime()
    if k == "lin":
        return A.LinearTime()
    if k == "step":
        return A.StepTime(spec[1])
    if k == "avg":
        return A.AvgOverTime(step=spec[1] if len(spec) > 1 else None)
    if k == "sum":
        return A.SumOverTime(step=spec[1] if len(spec) > 1 else 0.0, per_time=spec[2] if len(spec) > 2 else True)
    if k == "stack":
        return A.StackTime()
    if k == "dfix":
        if len(spec) > 2 and spec[2] == "custom":
            return _custom_delay(spec[1] * TICK[0])
        return A.DelayFixed(spec[1] * TICK[0])
    if k == "dpull":
        return A.DelayToPull(steps=spec[1], additional_delay=spec[2] * TICK[0])
    if k == "dpush":
        return A.DelayToPush()
    raise ValueError(k)


_LAG = None


def _custom_delay(delay):
    """a user-written fixed delay: implements the public interface ITimeDelayAdapter on a plain Adapter (as the
    scheduler's own error message recommends) - same shift as DelayFixed, nothing of the SDK helper's attributes"""
    global _LAG  # pylint: disable=global-statement
    if _LAG is None:
        import finam as fm

        class Lag(fm.Adapter, fm.ITimeDelayAdapter):
            def __init__(self, delay):
                super().__init__()
                self.lag, self.first = delay, None

            def with_delay(self, time):
                off = time - self.lag
                return self.first if self.first is not None and off < self.first else off

            def _get_data(self, time, target):
                return self.pull_data(self.with_delay(time), target)

            def _get_info(self, info):
                in_info = self.exchange_info(info)
                self.first = in_info.time
                return in_info

        _LAG = Lag
    return _LAG(delay)


PUSH_BASED = {"next", "prev", "lin", "step", "avg", "sum", "stack"}
DELAYS = {"dfix", "dpull", "dpush"}
PASS = {"scale", "cb"}


class Link:
    """out >> adapters... >> inputs (a list of (branch_index, Input)); branch 0 is the chain end."""

    def __init__(self, out_info, in_infos, chain=(), static=False, mem_limit=None, mem_loc=None):
        import finam as fm

        self.out = fm.Output(name="o", info=out_info, static=static)
        self.adapters = [make_adapter(a) for a in chain]
        x = self.out
        for a in self.adapters:
            x = x >> a
        self.end = x
        self.inputs = []
        for k, info in enumerate(in_infos):
            inp = fm.Input(name=f"i{k}", info=info, static=static)
            x >> inp
            self.inputs.append(inp)
        for s in [self.out] + self.adapters:
            s.memory_limit = mem_limit
            s.memory_location = mem_loc

    def connect(self):
        for inp in self.inputs:
            inp.ping()
        for inp in self.inputs:
            inp.exchange_info()

    def finalize(self):
        self.out.finalize()
        for a in self.adapters:
            a.finalize()


def magnitude(q):
    return q.magnitude if hasattr(q, "magnitude") else q


def unmasked_equal(got, exp, mask, rtol=1e-12, atol=0.0):
    """compare values at unmasked cells only (DESIGN 3.4)"""
    got = np.ma.getdata(got)
    exp = np.asarray(exp)
    if got.shape != exp.shape:
        return False
    keep = ~np.asarray(mask, dtype=bool) if mask is not None else np.ones(exp.shape, bool)
    return bool(np.allclose(got[keep], exp[keep], rtol=rtol, atol=atol))
