"""H-GRID: independent reference for "where is the data element with multi-index i".

A grid configuration (cfg) is a JSON value:

 {"cls": "rect", "axes": [[..user coords, maybe decreasing..], ...], "order": "C"|"F",
  "rev": bool, "loc": "CELLS"|"POINTS"}
 {"cls": "uni", "dims": [...], "spacing": [...], "origin": [...], "inc": [bool...],
  "order":..., "rev":..., "loc":...}
 {"cls": "esri", "ncols": n, "nrows": m, "cellsize": c, "xll": x, "yll": y, "order": ...}

ref(cfg) computes, from these constructor arguments only (no finam call), the array LOC of shape
data_shape + (dim,): LOC[i] = coordinate of the data element at multi-index i, plus data_shape and
flattening order. Everything finam reports is compared with quantities derived from LOC.
"""
import itertools

import numpy as np
from hypothesis import strategies as st


# ------------------------------------------------------------------ reference (no finam)
def user_axes(cfg):
    """Per spatial axis (x, y, z): node coordinates in the direction the user gave them."""
    c = cfg["cls"]
    if c == "rect":
        return [np.asarray(a, dtype=float) for a in cfg["axes"]]
    if c == "uni":
        out = []
        for d, s, o, inc in zip(cfg["dims"], cfg["spacing"], cfg["origin"], cfg["inc"]):
            a = o + s * np.arange(d, dtype=float)
            out.append(a if inc else a[::-1])
        return out
    if c == "esri":
        x = cfg["xll"] + cfg["cellsize"] * np.arange(cfg["ncols"] + 1, dtype=float)
        y = cfg["yll"] + cfg["cellsize"] * np.arange(cfg["nrows"] + 1, dtype=float)
        return [x, y[::-1]]
    raise ValueError(c)


def flags(cfg):
    if cfg["cls"] == "esri":
        return cfg.get("order", "C"), True, "CELLS"
    return cfg["order"], bool(cfg["rev"]), cfg["loc"]


def ref(cfg):
    """-> LOC (data_shape + (dim,)), data_shape (tuple), order"""
    order, rev, loc = flags(cfg)
    ua = user_axes(cfg)
    dim = len(ua)
    per_axis = []
    for a in ua:
        if loc == "POINTS" or len(a) == 1:
            per_axis.append(a.copy())
        else:
            per_axis.append((a[:-1] + a[1:]) / 2.0)
    # data axis j corresponds to spatial axis:
    spatial_of = list(range(dim))[::-1] if rev else list(range(dim))
    shape = tuple(len(per_axis[s]) for s in spatial_of)
    LOC = np.empty(shape + (dim,), dtype=float)
    for idx in itertools.product(*[range(n) for n in shape]):
        for j, s in enumerate(spatial_of):
            LOC[idx + (s,)] = per_axis[s][idx[j]]
    return LOC, shape, order


def ref_nodes(cfg):
    """node coordinates as a set-like sorted array (independent of layout)"""
    ua = user_axes(cfg)
    pts = np.array(list(itertools.product(*[sorted(a) for a in ua])), dtype=float)
    return pts


def flat_locs(cfg):
    """data locations in flattened grid order: row k <-> element ravel(i, order) == k"""
    LOC, shape, order = ref(cfg)
    dim = LOC.shape[-1]
    return np.stack([LOC[..., c].ravel(order=order) for c in range(dim)], axis=1)


def n_nondegenerate(cfg):
    return sum(1 for a in user_axes(cfg) if len(a) > 1)


def nondefault_flags(cfg):
    if cfg["cls"] == "esri":
        return 1
    order, rev, _loc = flags(cfg)
    n = int(order != "F") + int(rev)
    ua = user_axes(cfg)
    n += sum(1 for a in ua if len(a) > 1 and a[0] > a[-1])
    return n


def same_geometry_layout(cfg, order, rev, dec):
    """Another layout (order, rev, per-axis decreasing flags) of the same geometry; rect/uni only."""
    out = dict(cfg)
    out["order"], out["rev"] = order, rev
    if cfg["cls"] == "rect":
        axes = []
        for a, d in zip(cfg["axes"], dec):
            s = sorted(a)
            axes.append(s[::-1] if d and len(s) > 1 else s)
        out["axes"] = axes
    elif cfg["cls"] == "uni":
        out["inc"] = [not d for d in dec]
    else:
        raise ValueError("esri has a fixed layout")
    return out


def scaled(cfg, s):
    """the same grid in another length unit: every coordinate multiplied by s (layout flags untouched)"""
    if s == 1.0:
        return cfg
    out = dict(cfg)
    c = cfg["cls"]
    if c == "rect":
        out["axes"] = [[x * s for x in a] for a in cfg["axes"]]
    elif c == "uni":
        out["spacing"] = [x * s for x in cfg["spacing"]]
        out["origin"] = [x * s for x in cfg["origin"]]
    else:
        out["cellsize"], out["xll"], out["yll"] = cfg["cellsize"] * s, cfg["xll"] * s, cfg["yll"] * s
    return out


# ------------------------------------------------------------------ finam side
def build(cfg):
    import finam as fm

    c = cfg["cls"]
    if c == "rect":
        dt = cfg.get("axdtype")  # how the user hands the axes over: float64 array (default), other dtype, list, tuple

        def axis(a):
            if dt in (None, "float64"):
                return np.asarray(a, dtype=float)
            if dt == "list":
                return list(a)
            if dt == "tuple":
                return tuple(a)
            return np.asarray(a, dtype=dt)

        return fm.RectilinearGrid(
            axes=[axis(a) for a in cfg["axes"]],
            data_location=cfg["loc"],
            order=cfg["order"],
            axes_reversed=cfg["rev"],
            crs=cfg.get("crs"),
        )
    if c == "uni":
        return fm.UniformGrid(
            dims=tuple(cfg["dims"]),
            spacing=tuple(cfg["spacing"]),
            origin=tuple(cfg["origin"]),
            data_location=cfg["loc"],
            order=cfg["order"],
            axes_reversed=cfg["rev"],
            axes_increase=list(cfg["inc"]),
            crs=cfg.get("crs"),
        )
    if c == "esri":
        return fm.EsriGrid(
            ncols=cfg["ncols"],
            nrows=cfg["nrows"],
            cellsize=cfg["cellsize"],
            xllcorner=cfg["xll"],
            yllcorner=cfg["yll"],
            order=cfg.get("order", "C"),
            crs=cfg.get("crs"),
        )
    raise ValueError(c)


# ------------------------------------------------------------------ strategies / enumeration
GAPS = [0.5, 1.0, 1.5, 2.0, 3.0]


@st.composite
def rect_axis(draw, min_len=1, max_len=4):
    n = draw(st.integers(min_len, max_len))
    start = draw(st.integers(-3, 3))
    gaps = draw(st.lists(st.sampled_from(GAPS), min_size=n - 1, max_size=n - 1))
    a = [float(start)]
    for g in gaps:
        a.append(a[-1] + g)
    if n > 1 and draw(st.booleans()):
        a = a[::-1]
    return a


@st.composite
def grid_cfg(draw, classes=("rect", "uni", "esri"), dims=(1, 2, 3), min_len=1, max_len=4, loc=None):
    c = draw(st.sampled_from(list(classes)))
    if c == "esri":
        return {
            "cls": "esri",
            "ncols": draw(st.integers(max(1, min_len - 1), max_len - 1)),
            "nrows": draw(st.integers(max(1, min_len - 1), max_len - 1)),
            "cellsize": draw(st.sampled_from([0.5, 1.0, 2.0, 2.5])),
            "xll": float(draw(st.integers(-3, 3))),
            "yll": float(draw(st.integers(-3, 3))),
            "order": draw(st.sampled_from(["C", "F"])),
        }
    dim = draw(st.sampled_from(list(dims)))
    base = {
        "order": draw(st.sampled_from(["C", "F"])),
        "rev": draw(st.booleans()),
        "loc": loc or draw(st.sampled_from(["CELLS", "POINTS"])),
    }
    if c == "rect":
        base.update(cls="rect", axes=[draw(rect_axis(min_len, max_len)) for _ in range(dim)])
    else:
        base.update(
            cls="uni",
            dims=[draw(st.integers(min_len, max_len)) for _ in range(dim)],
            spacing=[draw(st.sampled_from([0.5, 1.0, 2.0, 2.5])) for _ in range(dim)],
            origin=[float(draw(st.integers(-3, 3))) for _ in range(dim)],
            inc=[draw(st.booleans()) for _ in range(dim)],
        )
    return base


SIZE_TEMPLATES = [(3, 2, 4), (2, 3, 2), (1, 3, 2), (3, 1, 1), (4, 4, 1)]


def enum_layouts(templates=SIZE_TEMPLATES, classes=("rect", "uni", "esri"), dims=(1, 2, 3)):
    """Complete product of layout flags for each size template."""
    for tpl in templates:
        for c in classes:
            if c == "esri":
                for order in "CF":
                    yield {"cls": "esri", "ncols": tpl[0], "nrows": tpl[1], "cellsize": 1.5,
                           "xll": -1.0, "yll": 2.0, "order": order}
                continue
            for dim in dims:
                lens = tpl[:dim]
                for order, rev, loc in itertools.product("CF", (False, True), ("CELLS", "POINTS")):
                    for dec in itertools.product((False, True), repeat=dim):
                        if any(d and n == 1 for d, n in zip(dec, lens)):
                            continue  # a single-node axis has no direction
                        if c == "rect":
                            axes = []
                            for k, (n, d) in enumerate(zip(lens, dec)):
                                a = [float(k) + 0.5 * i * (i + 1) for i in range(n)]
                                axes.append(a[::-1] if d else a)
                            yield {"cls": "rect", "axes": axes, "order": order, "rev": rev, "loc": loc}
                        else:
                            yield {"cls": "uni", "dims": list(lens), "spacing": [1.0, 0.5, 2.0][:dim],
                                   "origin": [0.0, -1.0, 2.0][:dim], "inc": [not d for d in dec],
                                   "order": order, "rev": rev, "loc": loc}
